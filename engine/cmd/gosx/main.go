package main

import (
	"flag"
	"fmt"
	"os"
	"strings"
	"time"

	"gosx/interp"
)

func main() {
	if len(os.Args) < 2 {
		fmt.Fprintln(os.Stderr, "usage: gosx run|check|replay ...")
		os.Exit(2)
	}
	switch os.Args[1] {
	case "run":
		cmdRun(os.Args[2:])
	case "check":
		cmdCheck(os.Args[2:])
	case "replay":
		cmdReplay(os.Args[2:])
	default:
		fmt.Fprintln(os.Stderr, "unknown command", os.Args[1])
		os.Exit(2)
	}
}

// cmdRun: development entry point: explore one harness and print a summary.
func cmdRun(args []string) {
	fs := flag.NewFlagSet("run", flag.ExitOnError)
	repo := fs.String("repo", "/repo", "repository")
	hdir := fs.String("harness-dir", "/verif/harness", "harness overlay directory")
	pkg := fs.String("pkg", "", "package path relative to module, e.g. gpbft")
	fn := fs.String("func", "", "harness function")
	workers := fs.Int("workers", 8, "workers")
	concrete := fs.Bool("concrete", false, "concrete-only run")
	concCap := fs.Int("concretize-cap", 0, "cap on case splits of one symbolic integer")
	maxPaths := fs.Int("max-paths", 0, "path budget")
	timeout := fs.Int("solver-timeout", 2000, "ms")
	solver := fs.String("solver", "z3", "z3|z3-new|cvc5")
	verbose := fs.Bool("v", false, "verbose")
	tier := fs.Int("tier", 0, "0 quick, 1 thorough")
	fs.Parse(args)
	pattern := "./" + *pkg
	if *pkg == "" || *pkg == "." {
		pattern = "."
	}
	env, err := interp.Load(interp.LoadConfig{RepoDir: *repo, HarnessDir: *hdir, Patterns: []string{pattern}, Tags: []string{"verif", "math_big_pure_go", "purego"}})
	if err != nil {
		fmt.Fprintln(os.Stderr, "load:", err)
		os.Exit(2)
	}
	fmt.Fprintf(os.Stderr, "loaded in %v\n", env.LoadTime)
	pkgPath := interp.TargetModule
	if *pkg != "" && *pkg != "." {
		pkgPath += "/" + *pkg
	}
	f := env.FindFunc(pkgPath, *fn)
	if f == nil {
		fmt.Fprintf(os.Stderr, "harness %s.%s not found\n", pkgPath, *fn)
		os.Exit(2)
	}
	cfg := interp.ExploreConfig{Harness: *fn, Workers: *workers, ConcreteOnly: *concrete, MaxPaths: *maxPaths, SolverTimeout: *timeout, SolverKind: *solver, Verbose: *verbose, Tier: *tier, ConcretizeCap: *concCap}
	res := interp.Explore(env, cfg, f)
	printResult(res)
}

func printResult(res *interp.Result) {
	fmt.Printf("harness %s: paths=%d infeasible=%d decisions=%d steps=%d obligations=%d discharged=%d queries=%d fallbacks=%d solver=%v wall=%v\n",
		res.Harness, res.Paths, res.Infeasible, res.Decisions, res.Steps, res.Obligations, res.Discharged, res.Queries, res.Fallbacks, res.SolverTime.Round(time.Millisecond), res.Wall.Round(time.Millisecond))
	fmt.Printf("  covers: %v\n", res.Covers)
	if len(res.Notes) > 0 {
		fmt.Printf("  notes: %v\n", res.Notes)
	}
	for _, v := range res.Violations {
		fmt.Printf("  VIOLATION label=%q where=%s inputs=%v\n", v.Label, v.Where, v.InputsJSON())
	}
	for _, e := range res.Inconclusive {
		fmt.Printf("  INCONCLUSIVE: %s\n", e)
	}
	for _, e := range res.EngineErrors {
		fmt.Printf("  ENGINE-ERROR: %s\n", strings.TrimSpace(e))
	}
}

