package main

import (
	"encoding/json"
	"flag"
	"fmt"
	"go/parser"
	"go/token"
	"os"
	"os/exec"
	"path/filepath"
	"sort"
	"strconv"
	"strings"
	"time"

	"gosx/interp"
)

// ---- index ----

type HarnessSpec struct {
	Pkg      string   `json:"pkg"`  // package dir relative to module ("." for root)
	Func     string   `json:"func"` // harness function
	Tiers    []string `json:"tiers"`
	Covers   []string `json:"covers"`   // labels that must be reached (vacuity witnesses)
	Bounds   string   `json:"bounds"`   // human-readable bound statement
	MaxPaths int      `json:"max_paths"`
	MaxSteps int64    `json:"max_steps"`
	ConcCap  int      `json:"concretize_cap"`
	Solver   string   `json:"solver"` // z3 (default) | z3-new | cvc5 | cvc5-int
	// Selfcheck: number of random concrete traces compared against the native build
	Selfcheck int `json:"selfcheck"`
}

type PropertySpec struct {
	Title     string        `json:"title"`
	Load      []string      `json:"load"`
	Harnesses []HarnessSpec `json:"harnesses"`
	Assume    []string      `json:"assumptions"`
	Trusted   []string      `json:"trusted_base"`
}

type KnownFinding struct {
	Property string `json:"property"`
	ID       string `json:"id"`
	What     string `json:"what"`
	Commit   string `json:"commit,omitempty"`
}

type KnownFile struct {
	Known []KnownFinding `json:"known"`
	Fixed []KnownFinding `json:"fixed"`
}

func hasTier(h HarnessSpec, tier string) bool {
	if len(h.Tiers) == 0 {
		return true
	}
	for _, t := range h.Tiers {
		if t == tier {
			return true
		}
	}
	return false
}

type replayFile struct {
	Property string                 `json:"property"`
	Harness  string                 `json:"harness"`
	Pkg      string                 `json:"pkg"`
	Label    string                 `json:"label"`
	Where    string                 `json:"where"`
	Inputs   map[string]interface{} `json:"inputs"`
	Tier     string                 `json:"tier"`
}

func cmdCheck(args []string) {
	fs := flag.NewFlagSet("check", flag.ExitOnError)
	repo := fs.String("repo", "/repo", "repository")
	vdir := fs.String("verif", "/verif", "verif directory")
	prop := fs.String("property", "", "property id")
	tier := fs.String("tier", "quick", "quick|thorough")
	workers := fs.Int("workers", 16, "workers")
	only := fs.String("only", "", "run only this harness (development)")
	noReplay := fs.Bool("no-replay", false, "skip native replay (development)")
	budget := fs.Duration("budget", 0, "wall-clock budget per harness")
	fs.Parse(args)
	os.Exit(runCheck(*repo, *vdir, *prop, *tier, *workers, *only, *noReplay, *budget))
}

func runCheck(repo, vdir, prop, tier string, workers int, only string, noReplay bool, budget time.Duration) int {
	start := time.Now()
	seed := 0
	if s := os.Getenv("VERIF_SEED"); s != "" {
		seed, _ = strconv.Atoi(s)
	}
	var index map[string]PropertySpec
	if b, err := os.ReadFile(filepath.Join(vdir, "harness", "index.json")); err != nil {
		fmt.Fprintln(os.Stderr, "cannot read index:", err)
		return 2
	} else if err := json.Unmarshal(b, &index); err != nil {
		fmt.Fprintln(os.Stderr, "bad index:", err)
		return 2
	}
	spec, ok := index[prop]
	if !ok {
		fmt.Fprintln(os.Stderr, "unknown property", prop)
		return 2
	}
	var known KnownFile
	if b, err := os.ReadFile(filepath.Join(vdir, "known_findings.json")); err == nil {
		if err := json.Unmarshal(b, &known); err != nil {
			fmt.Fprintln(os.Stderr, "bad known_findings.json:", err)
			return 2
		}
	}
	knownIDs := map[string]KnownFinding{}
	for _, k := range known.Known {
		if k.Property == prop {
			knownIDs[k.ID] = k
		}
	}

	pats := map[string]bool{}
	for _, h := range spec.Harnesses {
		if hasTier(h, tier) && (only == "" || only == h.Func) {
			if h.Pkg == "." || h.Pkg == "" {
				pats["."] = true
			} else {
				pats["./"+h.Pkg] = true
			}
		}
	}
	for _, l := range spec.Load {
		pats[l] = true
	}
	var patterns []string
	for p := range pats {
		patterns = append(patterns, p)
	}
	sort.Strings(patterns)
	env, err := interp.Load(interp.LoadConfig{RepoDir: repo, HarnessDir: filepath.Join(vdir, "harness"), Patterns: patterns,
		Tags: []string{"verif", "math_big_pure_go", "purego"}})
	if err != nil {
		fmt.Fprintln(os.Stderr, "load failed (check is broken or /repo does not build):", err)
		writeEvidence(vdir, prop, tier, seed, nil, nil, spec, time.Since(start), 0, []string{"load failed: " + err.Error()}, 0, 0)
		return 2
	}
	fmt.Printf("[%s/%s] loaded %v in %v\n", prop, tier, patterns, env.LoadTime.Round(time.Millisecond))

	tierN := 0
	if tier == "thorough" {
		tierN = 1
	}
	var results []*interp.Result
	var specs []HarnessSpec
	var problems []string
	confirmed := 0
	unconfirmed := 0
	knownHits := map[string]bool{}
	validated := 0
	var violationLines []string
	for _, h := range spec.Harnesses {
		if !hasTier(h, tier) || (only != "" && only != h.Func) {
			continue
		}
		pkgPath := interp.TargetModule
		if h.Pkg != "." && h.Pkg != "" {
			pkgPath += "/" + h.Pkg
		}
		f := env.FindFunc(pkgPath, h.Func)
		if f == nil {
			problems = append(problems, fmt.Sprintf("harness %s.%s not found", pkgPath, h.Func))
			continue
		}
		cfg := interp.ExploreConfig{Harness: h.Func, Workers: workers, MaxPaths: h.MaxPaths, MaxSteps: h.MaxSteps, ConcretizeCap: h.ConcCap, Tier: tierN, SolverKind: h.Solver}
		if tier == "thorough" {
			cfg.SolverTimeout = 5000
			cfg.FallbackMs = 300000
		}
		hb := budget
		if hb == 0 {
			// default wall-clock budget per harness: exhausted => inconclusive, never a pass
			hb = 15 * time.Minute
			if tier == "thorough" {
				hb = 90 * time.Minute
			}
		}
		cfg.Deadline = time.Now().Add(hb)
		res := interp.Explore(env, cfg, f)
		results = append(results, res)
		specs = append(specs, h)
		fmt.Printf("  %-44s paths=%d infeasible=%d oblig=%d discharged=%d queries=%d(fb %d) solver=%v wall=%v\n", h.Func, res.Paths, res.Infeasible,
			res.Obligations, res.Discharged, res.Queries, res.Fallbacks, res.SolverTime.Round(time.Millisecond), res.Wall.Round(time.Millisecond))
		for _, e := range res.EngineErrors {
			problems = append(problems, h.Func+": engine error: "+firstLines(e, 14))
		}
		for _, e := range dedupe(res.Inconclusive) {
			problems = append(problems, h.Func+": inconclusive: "+e)
		}
		for _, c := range h.Covers {
			if res.Covers[c] == 0 {
				problems = append(problems, fmt.Sprintf("%s: vacuity: cover label %q never reached", h.Func, c))
			}
		}
		if res.Paths == 0 {
			problems = append(problems, h.Func+": vacuity: no feasible path completed")
		}
		// violations: group by label, replay the first of each label
		byLabel := map[string][]*interp.Violation{}
		var labels []string
		for _, v := range res.Violations {
			if _, ok := byLabel[v.Label]; !ok {
				labels = append(labels, v.Label)
			}
			byLabel[v.Label] = append(byLabel[v.Label], v)
		}
		sort.Strings(labels)
		for _, label := range labels {
			vs := byLabel[label]
			v := vs[0]
			// known finding?  labels of the form "KNOWN:<id>:<text>" are produced by
			// harnesses for violations inside a registered finding's discriminator.
			if strings.HasPrefix(label, "KNOWN:") {
				parts := strings.SplitN(label, ":", 3)
				if kf, ok := knownIDs[parts[1]]; ok {
					if !knownHits[kf.ID] {
						knownHits[kf.ID] = true
						fmt.Printf("KNOWN-FINDING: property=%s %s: %s\n", prop, kf.ID, kf.What)
					}
					continue
				}
			}
			rdir := filepath.Join(vdir, "replays", prop)
			os.MkdirAll(rdir, 0o755)
			rpath := filepath.Join(rdir, fmt.Sprintf("%s-%s.json", h.Func, sanitize(label)))
			rf := replayFile{Property: prop, Harness: h.Func, Pkg: h.Pkg, Label: label, Where: v.Where, Inputs: v.InputsJSON(), Tier: tier}
			b, _ := json.MarshalIndent(rf, "", " ")
			os.WriteFile(rpath, b, 0o644)
			if noReplay {
				fmt.Printf("  cex (not replayed) %s label=%q where=%s inputs=%v\n", h.Func, label, firstLines(v.Where, 6), rf.Inputs)
				unconfirmed++
				continue
			}
			ok, out := nativeReplay(repo, vdir, rpath)
			if ok {
				confirmed++
				violationLines = append(violationLines, fmt.Sprintf("VIOLATION property=%s replay=%s", prop, rpath))
				fmt.Printf("  confirmed natively: %s label=%q (%d paths) where=%s\n", h.Func, label, len(vs), firstLines(v.Where, 8))
			} else {
				unconfirmed++
				problems = append(problems, fmt.Sprintf("%s: UNCONFIRMED-CEX label=%q (engine/model defect, not a finding): %s", h.Func, label, firstLines(out, 12)))
			}
		}
		// self-check: concrete engine runs vs native runs on random inputs
		if h.Selfcheck > 0 && !noReplay {
			n, probs := selfcheck(env, repo, vdir, prop, h, f, seed, tierN)
			validated += n
			problems = append(problems, probs...)
		}
	}
	for _, k := range known.Known {
		if k.Property == prop && !knownHits[k.ID] && only == "" && len(problems) == 0 {
			fmt.Printf("note: known finding %s was not reproduced by this run\n", k.ID)
		}
	}
	writeEvidence(vdir, prop, tier, seed, results, specs, spec, time.Since(start), confirmed, problems, validated, len(knownHits))
	for _, l := range violationLines {
		fmt.Println(l)
	}
	for _, p := range problems {
		fmt.Printf("PROBLEM: %s\n", p)
	}
	if confirmed > 0 {
		return 1
	}
	if len(problems) > 0 || unconfirmed > 0 {
		fmt.Printf("[%s/%s] INCONCLUSIVE (exit 2) in %v\n", prop, tier, time.Since(start).Round(time.Millisecond))
		return 2
	}
	fmt.Printf("[%s/%s] held on everything explored (%v)\n", prop, tier, time.Since(start).Round(time.Millisecond))
	return 0
}

func sanitize(s string) string {
	var sb strings.Builder
	for _, r := range s {
		if (r >= 'a' && r <= 'z') || (r >= 'A' && r <= 'Z') || (r >= '0' && r <= '9') || r == '-' || r == '_' {
			sb.WriteRune(r)
		} else {
			sb.WriteRune('_')
		}
	}
	if sb.Len() > 60 {
		return sb.String()[:60]
	}
	return sb.String()
}

func firstLines(s string, n int) string {
	ls := strings.Split(strings.TrimSpace(s), "\n")
	if len(ls) > n {
		ls = ls[:n]
	}
	return strings.Join(ls, "\n      ")
}

func dedupe(xs []string) []string {
	seen := map[string]bool{}
	var out []string
	for _, x := range xs {
		if !seen[x] {
			seen[x] = true
			out = append(out, x)
		}
	}
	return out
}

// ---- native replay ----

type nativeResult struct {
	Failures       []string `json:"failures"`
	AssumeViolated bool     `json:"assume_violated"`
	Panicked       string   `json:"panicked"`
	Trace          []string `json:"trace"`
}

func harnessPackageName(vdir, pkg string) (string, error) {
	dir := filepath.Join(vdir, "harness", pkg)
	if pkg == "." || pkg == "" {
		dir = filepath.Join(vdir, "harness", "root")
	}
	ents, err := os.ReadDir(dir)
	if err != nil {
		return "", err
	}
	for _, e := range ents {
		if strings.HasSuffix(e.Name(), ".go") {
			f, err := parser.ParseFile(token.NewFileSet(), filepath.Join(dir, e.Name()), nil, parser.PackageClauseOnly)
			if err == nil {
				return f.Name.Name, nil
			}
		}
	}
	return "", fmt.Errorf("no harness files in %s", dir)
}

// runNativeBatch runs harness fn of pkg natively once per replay file (one
// test binary, one process) and returns one result per file.
func runNativeBatch(repo, vdir, pkg, fn string, rpaths []string, tier string) ([]*nativeResult, string, error) {
	work := filepath.Join(vdir, ".work")
	os.MkdirAll(work, 0o755)
	pkgName, err := harnessPackageName(vdir, pkg)
	if err != nil {
		return nil, "", err
	}
	_, paths, err := interp.BuildOverlay(repo, filepath.Join(vdir, "harness"))
	if err != nil {
		return nil, "", err
	}
	testSrc := fmt.Sprintf(`//go:build verif

package %s

import (
	"encoding/json"
	"fmt"
	"os"
	"strings"
	"testing"

	sym "github.com/filecoin-project/go-f3/internal/verifsym"
)

func TestVerifReplay(t *testing.T) {
	for _, p := range strings.Split(os.Getenv("VERIF_REPLAY_BATCH"), ":") {
		os.Setenv("VERIF_REPLAY", p)
		failures, assumeViolated, panicked := sym.Run(%s)
		ps := ""
		if panicked != nil {
			ps = fmt.Sprint(panicked)
		}
		b, _ := json.Marshal(map[string]interface{}{"failures": failures, "assume_violated": assumeViolated, "panicked": ps, "trace": sym.Trace})
		fmt.Printf("\nVERIF-REPLAY-RESULT %%s\n", b)
	}
}
`, pkgName, fn)
	tf, err := os.CreateTemp(work, "replay-*_test.go")
	if err != nil {
		return nil, "", err
	}
	defer os.Remove(tf.Name())
	tf.WriteString(testSrc)
	tf.Close()
	pkgDir := pkg
	if pkg == "." || pkg == "" {
		pkgDir = ""
	}
	paths[filepath.Join(repo, pkgDir, "zz_verif_replay_test.go")] = tf.Name()
	ov, _ := json.Marshal(map[string]interface{}{"Replace": paths})
	of, err := os.CreateTemp(work, "overlay-*.json")
	if err != nil {
		return nil, "", err
	}
	defer os.Remove(of.Name())
	of.Write(ov)
	of.Close()
	target := "./" + pkgDir
	cmd := exec.Command("timeout", "900", "go", "test", "-tags", "verif", "-vet=off", "-count=1", "-overlay", of.Name(), "-run", "^TestVerifReplay$", "-v", target)
	cmd.Dir = repo
	cmd.Env = append(os.Environ(), "GOFLAGS=-mod=mod", "GOPROXY=off", "VERIF_REPLAY_BATCH="+strings.Join(rpaths, ":"), "VERIF_TIER="+tier)
	out, _ := cmd.CombinedOutput()
	txt := string(out)
	var res []*nativeResult
	for _, l := range strings.Split(txt, "\n") {
		if i := strings.Index(l, "VERIF-REPLAY-RESULT "); i >= 0 {
			var nr nativeResult
			if err := json.Unmarshal([]byte(l[i+len("VERIF-REPLAY-RESULT "):]), &nr); err != nil {
				return nil, txt, err
			}
			res = append(res, &nr)
		}
	}
	if len(res) != len(rpaths) {
		return nil, txt, fmt.Errorf("native replay produced %d result lines for %d runs", len(res), len(rpaths))
	}
	return res, txt, nil
}

func runNative(repo, vdir, pkg, fn, rpath, tier string) (*nativeResult, string, error) {
	rs, out, err := runNativeBatch(repo, vdir, pkg, fn, []string{rpath}, tier)
	if err != nil {
		return nil, out, err
	}
	return rs[0], out, nil
}

func nativeReplay(repo, vdir, rpath string) (bool, string) {
	b, err := os.ReadFile(rpath)
	if err != nil {
		return false, err.Error()
	}
	var rf replayFile
	if err := json.Unmarshal(b, &rf); err != nil {
		return false, err.Error()
	}
	nr, out, err := runNative(repo, vdir, rf.Pkg, rf.Harness, rpath, rf.Tier)
	if err != nil {
		return false, err.Error() + "\n" + lastLines(out, 30)
	}
	switch rf.Label {
	case "panic":
		if nr.Panicked != "" {
			return true, nr.Panicked
		}
	default:
		for _, f := range nr.Failures {
			if f == rf.Label {
				return true, ""
			}
		}
	}
	return false, fmt.Sprintf("native run: failures=%v assume_violated=%v panicked=%q", nr.Failures, nr.AssumeViolated, firstLines(nr.Panicked, 3))
}

func lastLines(s string, n int) string {
	ls := strings.Split(strings.TrimSpace(s), "\n")
	if len(ls) > n {
		ls = ls[len(ls)-n:]
	}
	return strings.Join(ls, "\n")
}

func cmdReplay(args []string) {
	fs := flag.NewFlagSet("replay", flag.ExitOnError)
	repo := fs.String("repo", "/repo", "repository")
	vdir := fs.String("verif", "/verif", "verif directory")
	fs.Parse(args)
	if fs.NArg() != 1 {
		fmt.Fprintln(os.Stderr, "usage: gosx replay <replay.json>")
		os.Exit(2)
	}
	ok, out := nativeReplay(*repo, *vdir, fs.Arg(0))
	if ok {
		b, _ := os.ReadFile(fs.Arg(0))
		var rf replayFile
		json.Unmarshal(b, &rf)
		fmt.Printf("VIOLATION property=%s replay=%s\n", rf.Property, fs.Arg(0))
		if out != "" {
			fmt.Println(firstLines(out, 20))
		}
		os.Exit(1)
	}
	fmt.Println("replay did not reproduce the violation:", out)
	os.Exit(0)
}

// ---- evidence ----

func writeEvidence(vdir, prop, tier string, seed int, results []*interp.Result, specs []HarnessSpec, spec PropertySpec, wall time.Duration, violations int, problems []string, validated int, knownHits int) {
	states, transitions, obligations, discharged, queries := 0, int64(0), 0, 0, 0
	var solver time.Duration
	funcs := map[string]bool{}
	stubs := map[string]bool{}
	var samples []interface{}
	var perHarness []map[string]interface{}
	covers := map[string]int{}
	var bounds []string
	assumes := 0
	for k, r := range results {
		states += r.Paths
		transitions += r.Decisions
		obligations += r.Obligations
		discharged += r.Discharged
		queries += r.Queries
		solver += r.SolverTime
		assumes += r.Assumes
		for f := range r.Funcs {
			funcs[f] = true
		}
		for s := range r.Stubs {
			stubs[s] = true
		}
		for c, n := range r.Covers {
			covers[r.Harness+":"+c] = n
		}
		for i, s := range r.Samples {
			if i < 2 {
				samples = append(samples, map[string]interface{}{"harness": r.Harness, "path": s})
			}
		}
		if specs[k].Bounds != "" {
			bounds = append(bounds, specs[k].Func+": "+specs[k].Bounds)
		}
		perHarness = append(perHarness, map[string]interface{}{
			"harness": r.Harness, "paths": r.Paths, "infeasible_paths": r.Infeasible, "branch_decisions": r.Decisions,
			"ssa_instructions": r.Steps, "obligations": r.Obligations, "discharged": r.Discharged, "solver_queries": r.Queries,
			"portfolio_fallbacks": r.Fallbacks, "solver_time_s": r.SolverTime.Seconds(), "wall_s": r.Wall.Seconds(), "notes": r.Notes,
			"violating_paths": len(r.Violations),
		})
	}
	if len(samples) == 0 {
		samples = append(samples, map[string]interface{}{"note": "no path completed"})
	}
	if transitions == 0 && states > 0 {
		transitions = int64(states) // straight-line harnesses: one transition per path
	}
	ev := map[string]interface{}{
		"property_id": prop,
		"tier":        tier,
		"seed":        seed,
		"level":       "model_checking",
		"wall_s":      wall.Seconds(),
		"violations":  violations,
		"coverage": map[string]interface{}{
			"states":                        states,
			"transitions":                   transitions,
			"traces_validated_against_impl": validated,
			"samples":                       samples,
			"obligations":                   obligations,
			"discharged":                    discharged,
			"checker_cmd":                   fmt.Sprintf("./check %s %s", prop, tier),
			"trusted_base":                  append([]string{"golang.org/x/tools go/ssa v0.29.0 (SSA construction)", "gosx interpreter semantics (/verif/engine/interp)", "z3 4.8.12; on unknown: one-shot portfolio z3 4.8.12 / z3 5.1.0 / cvc5 1.0 (incl. --solve-bv-as-int=sum)"}, spec.Trusted...),
			"explanation":                   "states = feasible symbolic paths of the real SSA completed; transitions = symbolic branch decisions taken; obligations = assertion queries issued, discharged = answered unsat; traces_validated_against_impl = random concrete runs whose engine trace equals the natively compiled run",
			"functions_encoded":             interp.SortedSet(funcs),
			"stubs_and_models_hit":          interp.SortedSet(stubs),
			"bounds":                        bounds,
			"cover_labels":                  covers,
			"solver_queries":                queries,
			"solver_time_s":                 solver.Seconds(),
			"per_harness":                   perHarness,
			"inconclusive":                  problems,
			"known_findings_reproduced":     knownHits,
			"harness_assumptions_evaluated": assumes,
		},
		"assumptions": spec.Assume,
	}
	if ev["assumptions"] == nil {
		ev["assumptions"] = []string{}
	}
	os.MkdirAll(filepath.Join(vdir, "evidence"), 0o755)
	b, _ := json.MarshalIndent(ev, "", " ")
	os.WriteFile(filepath.Join(vdir, "evidence", prop+".json"), b, 0o644)
}

// selfcheck compares engine concrete-mode runs with native runs.
func selfcheck(env *interp.Env, repo, vdir, prop string, h HarnessSpec, f interface{}, seed int, tier int) (int, []string) {
	return selfcheckImpl(env, repo, vdir, prop, h, seed, tier)
}
