package main

import (
	"encoding/json"
	"fmt"
	"os"
	"path/filepath"
	"sort"
	"strings"

	"gosx/interp"
)

// selfcheckImpl runs the harness h.Selfcheck times in the engine's concrete
// mode on pseudo-random inputs and natively on the same inputs (one go test
// invocation per run would be slow, so all runs share one test binary via a
// batch file), and compares outcomes and Observe traces.
func selfcheckImpl(env *interp.Env, repo, vdir, prop string, h HarnessSpec, seed int, tier int) (int, []string) {
	pkgPath := interp.TargetModule
	if h.Pkg != "." && h.Pkg != "" {
		pkgPath += "/" + h.Pkg
	}
	fn := env.FindFunc(pkgPath, h.Func)
	var problems []string
	type one struct {
		cr    *interp.ConcreteRun
		rpath string
	}
	work := filepath.Join(vdir, ".work")
	os.MkdirAll(work, 0o755)
	var runs []one
	for k := 0; k < h.Selfcheck; k++ {
		cr := interp.RunConcrete(env, fn, uint64(seed)*1000003+uint64(k)+1, tier)
		if cr.EngineError != "" {
			problems = append(problems, fmt.Sprintf("%s: selfcheck run %d: %s", h.Func, k, cr.EngineError))
			continue
		}
		rf := replayFile{Property: prop, Harness: h.Func, Pkg: h.Pkg, Label: "selfcheck", Inputs: cr.Inputs}
		b, _ := json.Marshal(rf)
		f, err := os.CreateTemp(work, "selfcheck-*.json")
		if err != nil {
			problems = append(problems, err.Error())
			continue
		}
		f.Write(b)
		f.Close()
		runs = append(runs, one{cr, f.Name()})
	}
	defer func() {
		for _, r := range runs {
			os.Remove(r.rpath)
		}
	}()
	if len(runs) == 0 {
		return 0, problems
	}
	var paths []string
	for _, r := range runs {
		paths = append(paths, r.rpath)
	}
	tierName := "quick"
	if tier == 1 {
		tierName = "thorough"
	}
	nrs, out, err := runNativeBatch(repo, vdir, h.Pkg, h.Func, paths, tierName)
	if err != nil {
		problems = append(problems, fmt.Sprintf("%s: selfcheck native run failed: %v\n%s", h.Func, err, lastLines(out, 20)))
		return 0, problems
	}
	ok := 0
	for k, r := range runs {
		nr := nrs[k]
		ef := append([]string(nil), r.cr.Failures...)
		nf := append([]string(nil), nr.Failures...)
		sort.Strings(ef)
		sort.Strings(nf)
		var ntrace []string
		for _, t := range nr.Trace {
			if strings.Contains(t, "=") {
				ntrace = append(ntrace, t)
			}
		}
		same := strings.Join(ef, "|") == strings.Join(nf, "|") && r.cr.AssumeViolated == nr.AssumeViolated &&
			(r.cr.Panicked != "") == (nr.Panicked != "") && strings.Join(r.cr.Trace, "|") == strings.Join(ntrace, "|")
		if same {
			ok++
		} else {
			problems = append(problems, fmt.Sprintf("%s: selfcheck MISMATCH on inputs %v: engine{fail=%v assume=%v panic=%q trace=%v} native{fail=%v assume=%v panic=%q trace=%v}",
				h.Func, r.cr.Inputs, ef, r.cr.AssumeViolated, firstLines(r.cr.Panicked, 2), r.cr.Trace, nf, nr.AssumeViolated, firstLines(nr.Panicked, 2), ntrace))
		}
	}
	return ok, problems
}
