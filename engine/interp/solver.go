package interp

// One long-lived SMT solver process per worker (z3 -in by default).  Terms are
// shipped as define-funs at the base level; path-condition conjuncts are
// asserted at the base level; "what if" queries use push/pop.

import (
	"bufio"
	"fmt"
	"io"
	"math/big"
	"os"
	"os/exec"
	"strings"
	"time"
)

type SolverResult int

const (
	Sat SolverResult = iota
	Unsat
	Unknown
)

func (r SolverResult) String() string { return [...]string{"sat", "unsat", "unknown"}[r] }

type Solver struct {
	kind      string // "z3", "z3-new", "cvc5"
	cmd       *exec.Cmd
	in        io.WriteCloser
	out       *bufio.Reader
	timeoutMs int
	log       io.Writer
	base      strings.Builder // base-level transcript since Reset (for the portfolio fallback)
	Fallback  int             // ms budget of the one-shot portfolio (0 = off)
	NFallback int

	defined  map[int]bool    // term ids with a define-fun in the current session
	declared map[string]bool // vars declared in the current session

	Queries   int
	NSat      int
	NUnsat    int
	NUnknown  int
	TotalTime time.Duration
	LastErr   string
}

func NewSolver(kind string, timeoutMs int) (*Solver, error) {
	var cmd *exec.Cmd
	switch kind {
	case "z3", "z3-new":
		cmd = exec.Command(kind, "-in", "-smt2")
	case "cvc5":
		cmd = exec.Command("cvc5", "--incremental", "--lang=smt2", "--produce-models", fmt.Sprintf("--tlimit-per=%d", timeoutMs))
	case "cvc5-int":
		// bit-vectors solved as integers with explicit mod-2^k semantics: decides the
		// multiply/divide-by-constant kernels (quorum thresholds) that stall bit-blasting
		cmd = exec.Command("cvc5", "--incremental", "--lang=smt2", "--produce-models", "--solve-bv-as-int=sum", fmt.Sprintf("--tlimit-per=%d", timeoutMs))
	default:
		return nil, fmt.Errorf("unknown solver %q", kind)
	}
	in, err := cmd.StdinPipe()
	if err != nil {
		return nil, err
	}
	out, err := cmd.StdoutPipe()
	if err != nil {
		return nil, err
	}
	cmd.Stderr = cmd.Stdout
	if err := cmd.Start(); err != nil {
		return nil, err
	}
	s := &Solver{kind: kind, cmd: cmd, in: in, out: bufio.NewReaderSize(out, 1<<16), timeoutMs: timeoutMs}
	if d := os.Getenv("GOSX_SMTLOG"); d != "" {
		f, err := os.CreateTemp(d, "q-*.smt2")
		if err == nil {
			s.log = f
		}
	}
	s.Reset()
	return s, nil
}

func (s *Solver) Close() {
	if s == nil || s.cmd == nil {
		return
	}
	s.in.Close()
	done := make(chan struct{})
	go func() { s.cmd.Wait(); close(done) }()
	select {
	case <-done:
	case <-time.After(2 * time.Second):
		s.cmd.Process.Kill()
	}
}

func (s *Solver) send(text string) {
	if s.log != nil {
		io.WriteString(s.log, text)
	}
	io.WriteString(s.in, text)
}

// Reset drops all definitions and assertions.
func (s *Solver) Reset() {
	s.defined = make(map[int]bool)
	s.declared = make(map[string]bool)
	s.base.Reset()
	var sb strings.Builder
	sb.WriteString("(reset)\n")
	if !strings.HasPrefix(s.kind, "cvc5") {
		sb.WriteString("(set-option :produce-models true)\n")
		fmt.Fprintf(&sb, "(set-option :timeout %d)\n", s.timeoutMs)
	} else {
		sb.WriteString("(set-logic ALL)\n")
	}
	s.send(sb.String())
}

// define makes sure t (and its sub-terms) are available under ref(t).
func (s *Solver) define(sb *strings.Builder, t *Term) {
	if t.op == OpConst {
		return
	}
	if t.op == OpVar {
		if !s.declared[t.name] {
			s.declared[t.name] = true
			fmt.Fprintf(sb, "(declare-const %s %s)\n", smtName(t.name), t.sort)
		}
		return
	}
	if s.defined[t.id] {
		return
	}
	// iterative post-order to avoid deep recursion on long chains
	type fr struct {
		t *Term
		i int
	}
	stack := []fr{{t, 0}}
	for len(stack) > 0 {
		top := &stack[len(stack)-1]
		if top.i < len(top.t.args) {
			a := top.t.args[top.i]
			top.i++
			if a.op == OpConst {
				continue
			}
			if a.op == OpVar {
				if !s.declared[a.name] {
					s.declared[a.name] = true
					fmt.Fprintf(sb, "(declare-const %s %s)\n", smtName(a.name), a.sort)
				}
				continue
			}
			if !s.defined[a.id] {
				stack = append(stack, fr{a, 0})
			}
			continue
		}
		if !s.defined[top.t.id] {
			s.defined[top.t.id] = true
			fmt.Fprintf(sb, "(define-fun t%d () %s %s)\n", top.t.id, top.t.sort, body(top.t))
		}
		stack = stack[:len(stack)-1]
	}
}

// Assert adds t permanently (until Reset).
func (s *Solver) Assert(t *Term) {
	var sb strings.Builder
	s.define(&sb, t)
	fmt.Fprintf(&sb, "(assert %s)\n", ref(t))
	s.base.WriteString(sb.String())
	s.send(sb.String())
}

// Check decides base assertions ∧ extra.  On sat and wantModel, it returns
// values for all variables in vars.
func (s *Solver) Check(extra []*Term, vars []*Term, wantModel bool) (SolverResult, Model) {
	start := time.Now()
	defer func() { s.TotalTime += time.Since(start) }()
	s.Queries++
	var sb strings.Builder
	for _, t := range extra {
		s.define(&sb, t)
	}
	for _, v := range vars {
		s.define(&sb, v)
	}
	s.base.WriteString(sb.String())
	sb.WriteString("(push 1)\n")
	for _, t := range extra {
		fmt.Fprintf(&sb, "(assert %s)\n", ref(t))
	}
	sb.WriteString("(check-sat)\n(echo \"@@CHK\")\n")
	s.send(sb.String())
	lines := s.readUntil("@@CHK")
	res := Unknown
	for _, l := range lines {
		l = strings.TrimSpace(l)
		if strings.HasPrefix(l, "(error") {
			s.LastErr = l
			res = Unknown
			break
		}
		switch l {
		case "sat":
			res = Sat
		case "unsat":
			res = Unsat
		case "unknown", "timeout":
			res = Unknown
		}
	}
	var model Model
	if res == Sat && wantModel && len(vars) > 0 {
		var q strings.Builder
		q.WriteString("(get-value (")
		for _, v := range vars {
			q.WriteString(smtName(v.name))
			q.WriteString(" ")
		}
		q.WriteString("))\n(echo \"@@VAL\")\n")
		s.send(q.String())
		txt := strings.Join(s.readUntil("@@VAL"), "\n")
		if strings.Contains(txt, "(error") {
			s.LastErr = txt
			res = Unknown
		} else {
			var err error
			model, err = parseValues(txt, vars)
			if err != nil {
				s.LastErr = err.Error() + ": " + txt
				res = Unknown
			}
		}
	} else if res == Sat {
		model = Model{}
	}
	s.send("(pop 1)\n")
	if res == Unknown && s.Fallback > 0 {
		res, model = s.portfolio(extra, vars, wantModel)
	}
	switch res {
	case Sat:
		s.NSat++
	case Unsat:
		s.NUnsat++
	default:
		s.NUnknown++
	}
	return res, model
}

func (s *Solver) readUntil(marker string) []string {
	var lines []string
	for {
		l, err := s.out.ReadString('\n')
		l = strings.TrimRight(l, "\r\n")
		t := strings.Trim(strings.TrimSpace(l), "\"")
		if t == marker {
			return lines
		}
		if l != "" {
			lines = append(lines, l)
		}
		if err != nil {
			lines = append(lines, "(error \"solver died: "+err.Error()+"\")")
			return lines
		}
	}
}

// ---- s-expression parsing of (get-value ...) output ----

type sexp struct {
	atom string
	list []*sexp
	isL  bool
}

func parseSexp(s string) ([]*sexp, error) {
	var stack [][]*sexp
	cur := []*sexp{}
	i := 0
	for i < len(s) {
		c := s[i]
		switch {
		case c == '(':
			stack = append(stack, cur)
			cur = []*sexp{}
			i++
		case c == ')':
			if len(stack) == 0 {
				return nil, fmt.Errorf("unbalanced )")
			}
			l := &sexp{list: cur, isL: true}
			cur = stack[len(stack)-1]
			stack = stack[:len(stack)-1]
			cur = append(cur, l)
			i++
		case c == ' ' || c == '\n' || c == '\t' || c == '\r':
			i++
		case c == '|':
			j := strings.IndexByte(s[i+1:], '|')
			if j < 0 {
				return nil, fmt.Errorf("unterminated |")
			}
			cur = append(cur, &sexp{atom: s[i : i+j+2]})
			i += j + 2
		case c == '"':
			j := strings.IndexByte(s[i+1:], '"')
			if j < 0 {
				return nil, fmt.Errorf("unterminated string")
			}
			cur = append(cur, &sexp{atom: s[i : i+j+2]})
			i += j + 2
		default:
			j := i
			for j < len(s) && !strings.ContainsRune("() \n\t\r", rune(s[j])) {
				j++
			}
			cur = append(cur, &sexp{atom: s[i:j]})
			i = j
		}
	}
	if len(stack) != 0 {
		return nil, fmt.Errorf("unbalanced (")
	}
	return cur, nil
}

func sexpValue(e *sexp, sort Sort) (interface{}, error) {
	switch sort.K {
	case SBool:
		switch e.atom {
		case "true":
			return uint64(1), nil
		case "false":
			return uint64(0), nil
		}
	case SBV:
		a := e.atom
		if strings.HasPrefix(a, "#x") {
			v, ok := new(big.Int).SetString(a[2:], 16)
			if ok {
				return v.Uint64(), nil
			}
		}
		if strings.HasPrefix(a, "#b") {
			v, ok := new(big.Int).SetString(a[2:], 2)
			if ok {
				return v.Uint64(), nil
			}
		}
		if e.isL && len(e.list) == 3 && e.list[0].atom == "_" && strings.HasPrefix(e.list[1].atom, "bv") {
			v, ok := new(big.Int).SetString(e.list[1].atom[2:], 10)
			if ok {
				return v.Uint64(), nil
			}
		}
	case SInt:
		if !e.isL {
			v, ok := new(big.Int).SetString(e.atom, 10)
			if ok {
				return v, nil
			}
		} else if len(e.list) == 2 && e.list[0].atom == "-" {
			v, err := sexpValue(e.list[1], sort)
			if err == nil {
				return new(big.Int).Neg(v.(*big.Int)), nil
			}
		}
	}
	return nil, fmt.Errorf("cannot parse value of sort %v", sort)
}

func parseValues(txt string, vars []*Term) (Model, error) {
	es, err := parseSexp(txt)
	if err != nil {
		return nil, err
	}
	if len(es) != 1 || !es[0].isL {
		return nil, fmt.Errorf("unexpected get-value reply")
	}
	byName := make(map[string]*Term, len(vars))
	for _, v := range vars {
		byName[smtName(v.name)] = v
	}
	m := make(Model, len(vars))
	for _, p := range es[0].list {
		if !p.isL || len(p.list) != 2 {
			return nil, fmt.Errorf("unexpected pair in get-value reply")
		}
		nm := p.list[0].atom
		if !strings.HasPrefix(nm, "|") {
			nm = "|" + nm + "|"
		}
		v, ok := byName[nm]
		if !ok {
			continue
		}
		val, err := sexpValue(p.list[1], v.sort)
		if err != nil {
			return nil, err
		}
		m[v.name] = val
	}
	return m, nil
}


// portfolio re-discharges a query the incremental solver could not decide by
// running one-shot solver processes in parallel (different back ends and
// encodings); the first definitive answer wins.
func (s *Solver) portfolio(extra []*Term, vars []*Term, wantModel bool) (SolverResult, Model) {
	s.NFallback++
	var q strings.Builder
	q.WriteString("(set-option :produce-models true)\n(set-logic ALL)\n")
	q.WriteString(s.base.String())
	for _, t := range extra {
		fmt.Fprintf(&q, "(assert %s)\n", ref(t))
	}
	q.WriteString("(check-sat)\n")
	if wantModel && len(vars) > 0 {
		q.WriteString("(get-value (")
		for _, v := range vars {
			q.WriteString(smtName(v.name))
			q.WriteString(" ")
		}
		q.WriteString("))\n")
	}
	f, err := os.CreateTemp("", "gosx-*.smt2")
	if err != nil {
		s.LastErr = err.Error()
		return Unknown, nil
	}
	if os.Getenv("GOSX_KEEP") == "" {
		defer os.Remove(f.Name())
	}
	f.WriteString(q.String())
	f.Close()
	secs := s.Fallback / 1000
	if secs < 1 {
		secs = 1
	}
	cmds := [][]string{
		{"cvc5", "--solve-bv-as-int=sum", "--produce-models", fmt.Sprintf("--tlimit=%d", s.Fallback), f.Name()},
		{"z3-new", fmt.Sprintf("-T:%d", secs), f.Name()},
		{"z3", fmt.Sprintf("-T:%d", secs), f.Name()},
		{"cvc5", "--produce-models", fmt.Sprintf("--tlimit=%d", s.Fallback), f.Name()},
	}
	type ans struct {
		res   SolverResult
		model Model
		who   string
	}
	ch := make(chan ans, len(cmds))
	var procs []*exec.Cmd
	for _, c := range cmds {
		cmd := exec.Command(c[0], c[1:]...)
		procs = append(procs, cmd)
		go func(cmd *exec.Cmd, who string) {
			out, _ := cmd.Output()
			txt := string(out)
			a := ans{res: Unknown, who: who}
			lines := strings.SplitN(strings.TrimSpace(txt), "\n", 2)
			// Any error before the verdict makes the answer unusable (a solver may
			// drop what it cannot parse and still answer).  After "unsat" the only
			// accepted error is the expected failure of get-value.
			first := strings.TrimSpace(lines[0])
			if first != "sat" && first != "unsat" {
				ch <- a
				return
			}
			if len(lines) == 2 && strings.Contains(lines[1], "(error") {
				rest := strings.TrimSpace(lines[1])
				okErr := first == "unsat" && strings.Count(rest, "(error") == 1 &&
					(strings.Contains(rest, "et value") || strings.Contains(rest, "model is not available"))
				if !okErr {
					ch <- a
					return
				}
			}
			switch first {
			case "unsat":
				a.res = Unsat
			case "sat":
				a.res = Sat
				if wantModel && len(vars) > 0 && len(lines) == 2 {
					m, err := parseValues(lines[1], vars)
					if err != nil {
						a.res = Unknown
					}
					a.model = m
				} else {
					a.model = Model{}
				}
			}
			ch <- a
		}(cmd, strings.Join(c[:2], " "))
	}
	res, model := Unknown, Model(nil)
	for range cmds {
		a := <-ch
		if a.res != Unknown {
			res, model = a.res, a.model
			s.LastErr = ""
			break
		}
	}
	for _, p := range procs {
		if p.Process != nil {
			p.Process.Kill()
		}
	}
	return res, model
}
