package interp

// Program-level state shared (read-only) by all paths: the SSA program built
// from /repo's current working tree plus the overlaid harness files.

import (
	"fmt"
	"go/constant"
	"go/types"
	"os"
	"path/filepath"
	"strings"
	"sync"
	"time"

	"golang.org/x/tools/go/packages"
	"golang.org/x/tools/go/ssa"
	"golang.org/x/tools/go/ssa/ssautil"
)

const TargetModule = "github.com/filecoin-project/go-f3"

type Env struct {
	Prog      *ssa.Program
	Pkgs      []*packages.Package
	SSAPkgs   []*ssa.Package
	RepoDir   string
	LoadTime  time.Duration
	redirects map[string]*ssa.Function
	mu        sync.Mutex

	initStores     map[*ssa.Package]map[*ssa.Global]bool
	reflectOnce    sync.Once
	reflectPackage *ssa.Package
	errorMethods   methodSet
	rtypeMethods   methodSet
}

// Packages whose functions all return zero values (logging, metrics...).
var opaquePrefixes = []string{
	"go.uber.org/zap",
	"github.com/ipfs/go-log",
	"go.opentelemetry.io/",
	"github.com/prometheus/",
	"runtime/debug",
	"runtime/pprof",
	"runtime/trace",
	"log/slog",
	"log",
}

// Packages that are never initialised (their initialised globals must not be read).
var noInitPrefixes = []string{
	"runtime", "reflect", "internal/", "syscall", "os", "net", "unsafe", "testing", "errors",
	"github.com/libp2p/", "sync", "time", "unicode", "fmt", "strconv", "crypto/",
	"github.com/stretchr/", "github.com/klauspost/cpuid", "github.com/klauspost/compress", "golang.org/x/sys", "github.com/filecoin-project/go-keccak",
	"github.com/consensys/gnark-crypto", "go.dedis.ch/", "github.com/cloudflare/circl", "github.com/minio/sha256-simd",
	"github.com/filecoin-project/go-f3/internal/gnark", "github.com/filecoin-project/go-f3/blssig",
	"github.com/zeebo/blake3", "lukechampine.com/blake3", "github.com/bits-and-blooms", "github.com/marcboeker", "github.com/apache/arrow",
}

// except these (they are plain data initialisers we do want)
var initAllow = map[string]bool{
	"internal/oserror": true,
	"internal/itoa":    true,
	"unicode":          true,
	"unicode/utf8":     true,
	"strconv":          true,
}

func (e *Env) opaque(path string) bool {
	for _, p := range opaquePrefixes {
		if path == p || strings.HasPrefix(path, p+"/") || (strings.HasSuffix(p, "/") && strings.HasPrefix(path, p)) {
			return true
		}
	}
	return false
}

func (e *Env) noInit(path string) bool {
	if initAllow[path] {
		return false
	}
	for _, p := range noInitPrefixes {
		if path == p || strings.HasPrefix(path, p+"/") || (strings.HasSuffix(p, "/") && strings.HasPrefix(path, p)) {
			return true
		}
	}
	return false
}

func (e *Env) isTarget(path string) bool {
	return path == TargetModule || strings.HasPrefix(path, TargetModule+"/")
}

func (e *Env) redirect(name string) *ssa.Function {
	return e.redirects[name]
}

// LoadConfig describes what to load.
type LoadConfig struct {
	RepoDir    string            // /repo
	HarnessDir string            // /verif/harness: mirrors the repo layout
	Patterns   []string          // package patterns relative to the module
	Tags       []string          // build tags
	Extra      map[string][]byte // extra overlay files
}

// BuildOverlay maps every file under harnessDir to the same relative path
// under repoDir.
func BuildOverlay(repoDir, harnessDir string) (map[string][]byte, map[string]string, error) {
	ov := make(map[string][]byte)
	paths := make(map[string]string)
	err := filepath.Walk(harnessDir, func(p string, info os.FileInfo, err error) error {
		if err != nil {
			return err
		}
		if info.IsDir() || !strings.HasSuffix(p, ".go") {
			return nil
		}
		rel, _ := filepath.Rel(harnessDir, p)
		if strings.HasPrefix(rel, "root/") {
			rel = strings.TrimPrefix(rel, "root/")
		}
		b, err := os.ReadFile(p)
		if err != nil {
			return err
		}
		dst := filepath.Join(repoDir, rel)
		ov[dst] = b
		paths[dst] = p
		return nil
	})
	return ov, paths, err
}

func Load(cfg LoadConfig) (*Env, error) {
	start := time.Now()
	ov, _, err := BuildOverlay(cfg.RepoDir, cfg.HarnessDir)
	if err != nil {
		return nil, err
	}
	for k, v := range cfg.Extra {
		ov[k] = v
	}
	tags := strings.Join(cfg.Tags, ",")
	pcfg := &packages.Config{
		Mode: packages.NeedName | packages.NeedFiles | packages.NeedCompiledGoFiles | packages.NeedImports |
			packages.NeedDeps | packages.NeedTypes | packages.NeedSyntax | packages.NeedTypesInfo | packages.NeedTypesSizes | packages.NeedModule,
		Dir:        cfg.RepoDir,
		Overlay:    ov,
		BuildFlags: []string{"-tags=" + tags},
		Env:        append(os.Environ(), "GOFLAGS=-mod=mod", "GOPROXY=off", "CGO_ENABLED=0"),
	}
	pkgs, err := packages.Load(pcfg, cfg.Patterns...)
	if err != nil {
		return nil, err
	}
	var errs []string
	packages.Visit(pkgs, nil, func(p *packages.Package) {
		for _, e := range p.Errors {
			errs = append(errs, e.Error())
		}
	})
	if len(errs) > 0 {
		if len(errs) > 20 {
			errs = errs[:20]
		}
		return nil, fmt.Errorf("package load errors:\n%s", strings.Join(errs, "\n"))
	}
	prog, spkgs := ssautil.AllPackages(pkgs, ssa.InstantiateGenerics)
	env := &Env{Prog: prog, Pkgs: pkgs, SSAPkgs: spkgs, RepoDir: cfg.RepoDir, redirects: make(map[string]*ssa.Function)}
	for _, sp := range spkgs {
		if sp != nil {
			sp.Build()
		}
	}
	env.LoadTime = time.Since(start)
	return env, nil
}

// FindFunc finds a package-level function by "pkgpath.Name".
func (e *Env) FindFunc(pkgPath, name string) *ssa.Function {
	for _, p := range e.Prog.AllPackages() {
		if p.Pkg.Path() == pkgPath {
			return p.Func(name)
		}
	}
	return nil
}

// AddRedirect replaces calls to the function named `from` (Function.String()
// form) by calls to the harness-provided model function `to`.
func (e *Env) AddRedirect(from string, to *ssa.Function) {
	e.redirects[from] = to
}

func (e *Env) sizes() types.Sizes {
	return types.SizesFor("gc", "amd64")
}

// setupReflect installs the fake reflect package (once per program) and
// shares its method tables with the per-path interpreter.
func (e *Env) setupReflect(i *interpreter) {
	e.reflectOnce.Do(func() {
		initReflect(i)
		e.reflectPackage = i.reflectPackage
		e.errorMethods = i.errorMethods
		e.rtypeMethods = i.rtypeMethods
	})
	i.reflectPackage = e.reflectPackage
	i.errorMethods = e.errorMethods
	i.rtypeMethods = e.rtypeMethods
}


// hasInitializer reports whether the synthesized package initialiser stores to g.
func (e *Env) hasInitializer(g *ssa.Global) bool {
	e.mu.Lock()
	defer e.mu.Unlock()
	if e.initStores == nil {
		e.initStores = make(map[*ssa.Package]map[*ssa.Global]bool)
	}
	m, ok := e.initStores[g.Pkg]
	if !ok {
		m = make(map[*ssa.Global]bool)
		g.Pkg.Build()
		if init := g.Pkg.Func("init"); init != nil {
			for _, b := range init.Blocks {
				for _, in := range b.Instrs {
					if st, ok := in.(*ssa.Store); ok {
						if gg, ok := st.Addr.(*ssa.Global); ok {
							m[gg] = true
						}
					}
				}
			}
		}
		e.initStores[g.Pkg] = m
	}
	return m[g]
}

// Globals of never-initialised packages whose zero value is acceptable.
var zeroOKGlobals = map[string]bool{
	"init$guard": true,
	"github.com/filecoin-project/go-keccak.isBigEndian": true,
}

func (e *Env) zeroOK(g *ssa.Global) bool {
	return zeroOKGlobals[g.Name()] || zeroOKGlobals[g.String()]
}


// constErrorInit recognises `var g = errors.New("const")` in a package initialiser.
func (e *Env) constErrorInit(g *ssa.Global) (string, bool) {
	init := g.Pkg.Func("init")
	if init == nil {
		return "", false
	}
	for _, b := range init.Blocks {
		for _, in := range b.Instrs {
			st, ok := in.(*ssa.Store)
			if !ok || st.Addr != ssa.Value(g) {
				continue
			}
			call, ok := st.Val.(*ssa.Call)
			if !ok {
				return "", false
			}
			fn := call.Call.StaticCallee()
			if fn == nil || (fn.String() != "errors.New" && fn.String() != "golang.org/x/xerrors.New") || len(call.Call.Args) != 1 {
				return "", false
			}
			c, ok := call.Call.Args[0].(*ssa.Const)
			if !ok || c.Value == nil {
				return "", false
			}
			return constant.StringVal(c.Value), true
		}
	}
	return "", false
}
