package interp

// Symbolic floating point is not interpreted.  A float computed from a
// symbolic integer is an opaque value (*symf without a term): it may be
// combined arithmetically with other floats, stored and passed on (go-f3 feeds
// such ratios to metrics and logs only), but any comparison, branch or
// conversion back to an integer that depends on it is an engine error, so it
// can never influence a verdict silently.

import (
	"go/token"
	"go/types"
)

type symf struct{ t *Term }

func isSymf(x value) bool { _, ok := x.(*symf); return ok }

func (ps *pathState) floatCmp(op string, x, y value) value {
	panic(engineError("symbolic floating-point comparison is not supported"))
}

func (ps *pathState) floatBinop(op token.Token, x, y value) value {
	switch op {
	case token.ADD, token.SUB, token.MUL, token.QUO:
		return &symf{}
	}
	panic(engineError("symbolic floating-point comparison is not supported"))
}

func (ps *pathState) floatNeg(x *symf) value { return &symf{} }

func (ps *pathState) intToFloat(x *sym) value {
	ps.stubsSeen["float64(symbolic integer) => opaque float (no comparison or conversion back allowed)"] = true
	return &symf{}
}

func widenInt(v value) value {
	if k, _ := concreteKind(v); kindSigned(k) {
		return asInt64(v)
	}
	return asUint64Any(v)
}

func (ps *pathState) floatToInt(x *symf, k types.BasicKind) value {
	panic(engineError("symbolic floating-point conversion is not supported"))
}
