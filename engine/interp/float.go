package interp

// Symbolic floating point is not interpreted: any arithmetic on a value that
// depends on a symbolic input is an engine error (harnesses keep such inputs
// concrete or stub the computation).

import (
	"go/token"
	"go/types"
)

type symf struct{ t *Term }

func isSymf(x value) bool { _, ok := x.(*symf); return ok }

func (ps *pathState) floatCmp(op string, x, y value) value {
	panic(engineError("symbolic floating-point comparison is not supported"))
}

func (ps *pathState) floatBinop(op token.Token, x, y value) value {
	panic(engineError("symbolic floating-point arithmetic is not supported"))
}

func (ps *pathState) floatNeg(x *symf) value {
	panic(engineError("symbolic floating-point arithmetic is not supported"))
}

func (ps *pathState) intToFloat(x *sym) value {
	// Case-split: an integer converted to float must be concrete.
	v := ps.concValue(x, "integer to float conversion")
	return conv(types.Typ[types.Float64], types.Typ[types.Int64], widenInt(v))
}

func widenInt(v value) value {
	if k, _ := concreteKind(v); kindSigned(k) {
		return asInt64(v)
	}
	return asUint64Any(v)
}

func (ps *pathState) floatToInt(x *symf, k types.BasicKind) value {
	panic(engineError("symbolic floating-point conversion is not supported"))
}
