package interp

// In-memory model of the os file API (per path): enough for the write-ahead
// log.  Files are byte vectors (bytes may be symbolic); Sync is a no-op
// because crash states are produced explicitly by the harness (os.Truncate of
// the last file = torn write), which also works natively on a real directory.

import (
	"fmt"
	"go/types"
	"sort"
	"strings"

	"golang.org/x/tools/go/ssa"
)

type vfile struct {
	data []value
}

type vfs struct {
	files  map[string]*vfile
	dirs   map[string]bool
	tmpSeq int
	clock  int64
}

type vhandle struct {
	path     string
	f        *vfile
	off      int
	writable bool
	readable bool
	appendM  bool
	closed   bool
}

func (i *interpreter) vfs() *vfs {
	if i.fs == nil {
		i.fs = &vfs{files: map[string]*vfile{}, dirs: map[string]bool{"/": true, "/vfs": true}}
	}
	return i.fs
}

func cleanPath(p string) string {
	for strings.Contains(p, "//") {
		p = strings.ReplaceAll(p, "//", "/")
	}
	if len(p) > 1 {
		p = strings.TrimSuffix(p, "/")
	}
	return p
}

func parentDir(p string) string {
	k := strings.LastIndexByte(p, '/')
	if k <= 0 {
		return "/"
	}
	return p[:k]
}

func (i *interpreter) namedType(pkg, name string) types.Type {
	p := i.prog.ImportedPackage(pkg)
	if p == nil {
		panic(engineError("package " + pkg + " not loaded (needed by the file-system model)"))
	}
	t := p.Type(name)
	if t == nil {
		panic(engineError("type " + pkg + "." + name + " not found"))
	}
	return t.Type()
}

// pathError builds &fs.PathError{Op, Path, Err: io/fs.<errName>}.
func (i *interpreter) pathError(op, path, errName string) value {
	v := value(structure{op, path, i.pkgGlobal("io/fs", errName)})
	return iface{t: types.NewPointer(i.namedType("io/fs", "PathError")), v: &v}
}

func (i *interpreter) newFileValue(h *vhandle) value {
	v := zero(i.namedType("os", "File"))
	p := &v
	i.side[p] = h
	return p
}

func (i *interpreter) handle(v value) *vhandle {
	p, _ := v.(*value)
	if p == nil {
		panic(targetPanic{v: rtErr("invalid memory address or nil pointer dereference (nil *os.File)")})
	}
	h, ok := i.side[p].(*vhandle)
	if !ok {
		panic(engineError("*os.File not created through the file-system model"))
	}
	return h
}

func (i *interpreter) symType(name string) types.Type {
	return i.namedType(TargetModule+"/internal/verifsym", name)
}

func (i *interpreter) fileInfo(path string, size int, isDir bool) value {
	return iface{t: i.symType("VFileInfo"), v: structure{path[strings.LastIndexByte(path, '/')+1:], int64(size), isDir}}
}

func init() {
	const (
		oWRONLY = 0x1
		oRDWR   = 0x2
		oAPPEND = 0x400
		oCREATE = 0x40
		oEXCL   = 0x80
		oTRUNC  = 0x200
	)
	openFile := func(fr *frame, name string, flag int) value {
		i := fr.i
		fs := i.vfs()
		name = cleanPath(name)
		f, exists := fs.files[name]
		if fs.dirs[name] {
			// opening a directory for reading is allowed (ReadDir); treat as error for files
			return tuple{zero(types.NewPointer(i.namedType("os", "File"))), i.pathError("open", name, "ErrInvalid")}
		}
		if exists && flag&oCREATE != 0 && flag&oEXCL != 0 {
			return tuple{zero(types.NewPointer(i.namedType("os", "File"))), i.pathError("open", name, "ErrExist")}
		}
		if !exists {
			if flag&oCREATE == 0 || !fs.dirs[parentDir(name)] {
				return tuple{zero(types.NewPointer(i.namedType("os", "File"))), i.pathError("open", name, "ErrNotExist")}
			}
			f = &vfile{}
			fs.files[name] = f
		}
		if flag&oTRUNC != 0 {
			f.data = nil
		}
		h := &vhandle{path: name, f: f, writable: flag&(oWRONLY|oRDWR) != 0, readable: flag&oWRONLY == 0, appendM: flag&oAPPEND != 0}
		return tuple{i.newFileValue(h), iface{}}
	}
	for k, v := range map[string]externalFn{
		"os.MkdirTemp": func(fr *frame, a []value) value {
			fs := fr.i.vfs()
			fs.tmpSeq++
			p := fmt.Sprintf("/vfs/tmp%d", fs.tmpSeq)
			fs.dirs[p] = true
			return tuple{p, iface{}}
		},
		"os.MkdirAll": func(fr *frame, a []value) value {
			fs := fr.i.vfs()
			p := cleanPath(strOf(a[0]))
			for p != "/" && p != "" {
				if _, isFile := fs.files[p]; isFile {
					return fr.i.pathError("mkdir", p, "ErrExist")
				}
				fs.dirs[p] = true
				p = parentDir(p)
			}
			return iface{}
		},
		"os.RemoveAll": func(fr *frame, a []value) value {
			fs := fr.i.vfs()
			p := cleanPath(strOf(a[0]))
			for k := range fs.files {
				if k == p || strings.HasPrefix(k, p+"/") {
					delete(fs.files, k)
				}
			}
			for k := range fs.dirs {
				if k == p || strings.HasPrefix(k, p+"/") {
					delete(fs.dirs, k)
				}
			}
			return iface{}
		},
		"os.ReadDir": func(fr *frame, a []value) value {
			i := fr.i
			fs := i.vfs()
			p := cleanPath(strOf(a[0]))
			if !fs.dirs[p] {
				return tuple{[]value(nil), i.pathError("open", p, "ErrNotExist")}
			}
			var names []string
			for k := range fs.files {
				if parentDir(k) == p {
					names = append(names, k)
				}
			}
			for k := range fs.dirs {
				if k != p && parentDir(k) == p {
					names = append(names, k)
				}
			}
			sort.Strings(names)
			var out []value
			for _, n := range names {
				out = append(out, iface{t: i.symType("VDirEntry"), v: structure{n[strings.LastIndexByte(n, '/')+1:], fs.dirs[n]}})
			}
			return tuple{out, iface{}}
		},
		"os.OpenFile": func(fr *frame, a []value) value {
			return openFile(fr, strOf(a[0]), int(asInt64(a[1])))
		},
		"os.Open": func(fr *frame, a []value) value { return openFile(fr, strOf(a[0]), 0) },
		"os.Create": func(fr *frame, a []value) value {
			return openFile(fr, strOf(a[0]), oRDWR|oCREATE|oTRUNC)
		},
		"os.Remove": func(fr *frame, a []value) value {
			fs := fr.i.vfs()
			p := cleanPath(strOf(a[0]))
			if _, ok := fs.files[p]; ok {
				delete(fs.files, p)
				return iface{}
			}
			if fs.dirs[p] {
				delete(fs.dirs, p)
				return iface{}
			}
			return fr.i.pathError("remove", p, "ErrNotExist")
		},
		"os.Truncate": func(fr *frame, a []value) value {
			i := fr.i
			fs := i.vfs()
			p := cleanPath(strOf(a[0]))
			f, ok := fs.files[p]
			if !ok {
				return i.pathError("truncate", p, "ErrNotExist")
			}
			n := int(i.ps.boundVal(a[1], len(f.data), "os.Truncate size"))
			if n < 0 {
				return i.pathError("truncate", p, "ErrInvalid")
			}
			if n <= len(f.data) {
				f.data = f.data[:n:n]
			} else {
				for len(f.data) < n {
					f.data = append(f.data, uint8(0))
				}
			}
			return iface{}
		},
		"os.Stat": func(fr *frame, a []value) value {
			i := fr.i
			fs := i.vfs()
			p := cleanPath(strOf(a[0]))
			if f, ok := fs.files[p]; ok {
				return tuple{i.fileInfo(p, len(f.data), false), iface{}}
			}
			if fs.dirs[p] {
				return tuple{i.fileInfo(p, 0, true), iface{}}
			}
			return tuple{iface{}, i.pathError("stat", p, "ErrNotExist")}
		},
		"os.ReadFile": func(fr *frame, a []value) value {
			i := fr.i
			p := cleanPath(strOf(a[0]))
			f, ok := i.vfs().files[p]
			if !ok {
				return tuple{[]value(nil), i.pathError("open", p, "ErrNotExist")}
			}
			return tuple{append([]value{}, f.data...), iface{}}
		},
		"os.WriteFile": func(fr *frame, a []value) value {
			i := fr.i
			fs := i.vfs()
			p := cleanPath(strOf(a[0]))
			if !fs.dirs[parentDir(p)] {
				return i.pathError("open", p, "ErrNotExist")
			}
			fs.files[p] = &vfile{data: append([]value{}, a[1].([]value)...)}
			return iface{}
		},
		"(*os.File).Write": func(fr *frame, a []value) value {
			h := fr.i.handle(a[0])
			if h.closed || !h.writable {
				return tuple{0, fr.i.pathError("write", h.path, "ErrClosed")}
			}
			b := a[1].([]value)
			if h.appendM {
				h.off = len(h.f.data)
			}
			for k, x := range b {
				pos := h.off + k
				if pos < len(h.f.data) {
					h.f.data[pos] = x
				} else {
					h.f.data = append(h.f.data, x)
				}
			}
			h.off += len(b)
			return tuple{len(b), iface{}}
		},
		"(*os.File).Read": func(fr *frame, a []value) value {
			h := fr.i.handle(a[0])
			if h.closed || !h.readable {
				return tuple{0, fr.i.pathError("read", h.path, "ErrClosed")}
			}
			b := a[1].([]value)
			if len(b) == 0 {
				return tuple{0, iface{}}
			}
			if h.off >= len(h.f.data) {
				return tuple{0, fr.i.pkgGlobal("io", "EOF")}
			}
			n := copy(b, h.f.data[h.off:])
			h.off += n
			return tuple{n, iface{}}
		},
		"(*os.File).Sync": func(fr *frame, a []value) value {
			h := fr.i.handle(a[0])
			if h.closed {
				return fr.i.pathError("sync", h.path, "ErrClosed")
			}
			return iface{}
		},
		"(*os.File).Close": func(fr *frame, a []value) value {
			h := fr.i.handle(a[0])
			if h.closed {
				return fr.i.pathError("close", h.path, "ErrClosed")
			}
			h.closed = true
			return iface{}
		},
		"(*os.File).Name": func(fr *frame, a []value) value { return fr.i.handle(a[0]).path },
		"(*os.File).Stat": func(fr *frame, a []value) value {
			h := fr.i.handle(a[0])
			if h.closed {
				return tuple{iface{}, fr.i.pathError("stat", h.path, "ErrClosed")}
			}
			return tuple{fr.i.fileInfo(h.path, len(h.f.data), false), iface{}}
		},
	} {
		externals[k] = v
	}
	// a strictly increasing wall clock (used for WAL file names)
	externals["time.Now"] = func(fr *frame, a []value) value {
		fs := fr.i.vfs()
		fs.clock++
		// one second per call, in the representation of the time model (timemodel.go)
		return tmMake(timeBias + (int64(1_664_403_200)+fs.clock)*int64(1e9))
	}
}

var _ *ssa.Function
