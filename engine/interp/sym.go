package interp

// Symbolic scalars (bool and the machine integer types) and the symbolic
// versions of the SSA operators.  Machine integers are bit-vectors, so they
// wrap exactly as Go's do.

import (
	"fmt"
	"go/token"
	"go/types"
)

// sym is a symbolic scalar value of basic kind k.
type sym struct {
	t *Term
	k types.BasicKind
}

// symstr is a string with (possibly) symbolic bytes and concrete length.
// Each element is a uint8 or *sym of kind Uint8.  Immutable.
type symstr []value

func kindWidth(k types.BasicKind) int {
	switch k {
	case types.Bool:
		return 0
	case types.Int8, types.Uint8:
		return 8
	case types.Int16, types.Uint16:
		return 16
	case types.Int32, types.Uint32:
		return 32
	case types.Int, types.Int64, types.Uint, types.Uint64, types.Uintptr:
		return 64
	}
	panic(fmt.Sprintf("kindWidth: unsupported kind %v", k))
}

func kindSigned(k types.BasicKind) bool {
	switch k {
	case types.Int, types.Int8, types.Int16, types.Int32, types.Int64:
		return true
	}
	return false
}

func isIntKind(k types.BasicKind) bool {
	switch k {
	case types.Int, types.Int8, types.Int16, types.Int32, types.Int64,
		types.Uint, types.Uint8, types.Uint16, types.Uint32, types.Uint64, types.Uintptr:
		return true
	}
	return false
}

// concreteKind returns the basic kind of a concrete scalar value.
func concreteKind(x value) (types.BasicKind, bool) {
	switch x.(type) {
	case bool:
		return types.Bool, true
	case int:
		return types.Int, true
	case int8:
		return types.Int8, true
	case int16:
		return types.Int16, true
	case int32:
		return types.Int32, true
	case int64:
		return types.Int64, true
	case uint:
		return types.Uint, true
	case uint8:
		return types.Uint8, true
	case uint16:
		return types.Uint16, true
	case uint32:
		return types.Uint32, true
	case uint64:
		return types.Uint64, true
	case uintptr:
		return types.Uintptr, true
	}
	return 0, false
}

func valueKind(x value) (types.BasicKind, bool) {
	if s, ok := x.(*sym); ok {
		return s.k, true
	}
	return concreteKind(x)
}

func isSym(x value) bool {
	_, ok := x.(*sym)
	return ok
}

// lift converts a scalar value to a term.
func (ps *pathState) lift(x value) *Term {
	switch x := x.(type) {
	case *sym:
		return x.t
	case bool:
		return ps.ts.Bool(x)
	}
	k, ok := concreteKind(x)
	if !ok {
		panic(fmt.Sprintf("lift: not a scalar: %T", x))
	}
	if kindSigned(k) {
		return ps.ts.BV(uint64(asInt64(x)), kindWidth(k))
	}
	return ps.ts.BV(asUint64Any(x), kindWidth(k))
}

func asUint64Any(x value) uint64 {
	switch x := x.(type) {
	case int:
		return uint64(x)
	case int8:
		return uint64(x)
	case int16:
		return uint64(x)
	case int32:
		return uint64(x)
	case int64:
		return uint64(x)
	}
	return asUint64(x)
}

// concreteOfKind builds the native Go value of kind k from raw bits.
func concreteOfKind(k types.BasicKind, bits uint64) value {
	switch k {
	case types.Bool:
		return bits != 0
	case types.Int:
		return int(bits)
	case types.Int8:
		return int8(bits)
	case types.Int16:
		return int16(bits)
	case types.Int32:
		return int32(bits)
	case types.Int64:
		return int64(bits)
	case types.Uint:
		return uint(bits)
	case types.Uint8:
		return uint8(bits)
	case types.Uint16:
		return uint16(bits)
	case types.Uint32:
		return uint32(bits)
	case types.Uint64:
		return uint64(bits)
	case types.Uintptr:
		return uintptr(bits)
	}
	panic(fmt.Sprintf("concreteOfKind: unsupported kind %v", k))
}

// mk wraps a term as a value, normalising constants to native values.
func mk(t *Term, k types.BasicKind) value {
	if t.op == OpConst {
		return concreteOfKind(k, t.cval)
	}
	return &sym{t: t, k: k}
}

func mkBool(t *Term) value { return mk(t, types.Bool) }

// truth forces a (possibly symbolic) boolean to a concrete one by deciding it.
func (ps *pathState) truth(x value) bool {
	switch x := x.(type) {
	case bool:
		return x
	case *sym:
		return ps.decide(x.t)
	}
	panic(fmt.Sprintf("truth: not a bool: %T", x))
}

// concInt forces an integer value to a concrete int64 (case split).
func (ps *pathState) concInt(x value, what string) int64 {
	if s, ok := x.(*sym); ok {
		v := ps.concretize(s.t, what)
		return asInt64(concreteOfKind(s.k, v))
	}
	return asInt64(x)
}

func (ps *pathState) concValue(x value, what string) value {
	if s, ok := x.(*sym); ok {
		v := ps.concretize(s.t, what)
		return concreteOfKind(s.k, v)
	}
	return x
}

func (ps *pathState) symBinop(op token.Token, x, y value) value {
	ts := ps.ts
	k, _ := valueKind(x)
	if k == types.Bool {
		a, b := ps.lift(x), ps.lift(y)
		switch op {
		case token.EQL:
			return mkBool(ts.Eq(a, b))
		case token.NEQ:
			return mkBool(ts.Not(ts.Eq(a, b)))
		case token.AND, token.LAND:
			return mkBool(ts.And(a, b))
		case token.OR, token.LOR:
			return mkBool(ts.Or(a, b))
		}
		panic(fmt.Sprintf("symBinop: bad bool op %s", op))
	}
	w := kindWidth(k)
	signed := kindSigned(k)
	a := ps.lift(x)
	switch op {
	case token.SHL, token.SHR:
		// shift count may have a different type
		yk, _ := valueKind(y)
		b := ps.lift(y)
		if kindSigned(yk) {
			if ps.decide(ts.BVCmp(OpBVSLt, b, ts.BV(0, b.sort.W))) {
				panic(targetPanic{v: rtErr("negative shift amount")})
			}
		}
		bw := b.sort.W
		var cnt *Term
		switch {
		case bw == w:
			cnt = b
		case bw < w:
			cnt = ts.ZExt(b, w)
		default:
			big := ts.BVCmp(OpBVULe, ts.BV(uint64(w), bw), b)
			cnt = ts.Ite(big, ts.BV(uint64(w), w), ts.Extract(b, w-1, 0))
		}
		switch {
		case op == token.SHL:
			return mk(ts.BV2(OpBVShl, a, cnt), k)
		case signed:
			return mk(ts.BV2(OpBVAShr, a, cnt), k)
		default:
			return mk(ts.BV2(OpBVLShr, a, cnt), k)
		}
	}
	b := ps.lift(y)
	switch op {
	case token.ADD:
		return mk(ts.BV2(OpBVAdd, a, b), k)
	case token.SUB:
		return mk(ts.BV2(OpBVSub, a, b), k)
	case token.MUL:
		return mk(ts.BV2(OpBVMul, a, b), k)
	case token.QUO, token.REM:
		if ps.decide(ts.Eq(b, ts.BV(0, w))) {
			panic(targetPanic{v: rtErr("integer divide by zero")})
		}
		switch {
		case op == token.QUO && signed:
			return mk(ts.BV2(OpBVSDiv, a, b), k)
		case op == token.QUO:
			return mk(ts.BV2(OpBVUDiv, a, b), k)
		case signed:
			return mk(ts.BV2(OpBVSRem, a, b), k)
		default:
			return mk(ts.BV2(OpBVURem, a, b), k)
		}
	case token.AND:
		return mk(ts.BV2(OpBVAnd, a, b), k)
	case token.OR:
		return mk(ts.BV2(OpBVOr, a, b), k)
	case token.XOR:
		return mk(ts.BV2(OpBVXor, a, b), k)
	case token.AND_NOT:
		return mk(ts.BV2(OpBVAnd, a, ts.BVNot(b)), k)
	case token.EQL:
		return mkBool(ts.Eq(a, b))
	case token.NEQ:
		return mkBool(ts.Not(ts.Eq(a, b)))
	case token.LSS:
		if signed {
			return mkBool(ts.BVCmp(OpBVSLt, a, b))
		}
		return mkBool(ts.BVCmp(OpBVULt, a, b))
	case token.LEQ:
		if signed {
			return mkBool(ts.BVCmp(OpBVSLe, a, b))
		}
		return mkBool(ts.BVCmp(OpBVULe, a, b))
	case token.GTR:
		if signed {
			return mkBool(ts.BVCmp(OpBVSLt, b, a))
		}
		return mkBool(ts.BVCmp(OpBVULt, b, a))
	case token.GEQ:
		if signed {
			return mkBool(ts.BVCmp(OpBVSLe, b, a))
		}
		return mkBool(ts.BVCmp(OpBVULe, b, a))
	}
	panic(fmt.Sprintf("symBinop: unsupported op %s on kind %v", op, k))
}

func (ps *pathState) symUnop(op token.Token, x *sym) value {
	switch op {
	case token.NOT:
		return mkBool(ps.ts.Not(x.t))
	case token.SUB:
		return mk(ps.ts.BVNeg(x.t), x.k)
	case token.XOR:
		return mk(ps.ts.BVNot(x.t), x.k)
	}
	panic(fmt.Sprintf("symUnop: unsupported op %s", op))
}

// symConvInt converts a symbolic integer to another integer kind.
func (ps *pathState) symConvInt(x *sym, dst types.BasicKind) value {
	sw, dw := kindWidth(x.k), kindWidth(dst)
	var t *Term
	switch {
	case dw == sw:
		t = x.t
	case dw < sw:
		t = ps.ts.Extract(x.t, dw-1, 0)
	case kindSigned(x.k):
		t = ps.ts.SExt(x.t, dw)
	default:
		t = ps.ts.ZExt(x.t, dw)
	}
	return mk(t, dst)
}

// ite builds a data-level choice between two values of identical shape.
func (ps *pathState) iteValue(c *Term, a, b value) value {
	if isTrue(c) {
		return a
	}
	if isFalse(c) {
		return b
	}
	switch a := a.(type) {
	case structure:
		bb := b.(structure)
		r := make(structure, len(a))
		for i := range a {
			r[i] = ps.iteValue(c, a[i], bb[i])
		}
		return r
	case array:
		bb := b.(array)
		r := make(array, len(a))
		for i := range a {
			r[i] = ps.iteValue(c, a[i], bb[i])
		}
		return r
	case []value:
		bb := b.([]value)
		if len(a) != len(bb) {
			if ps.decide(c) {
				return a
			}
			return b
		}
		r := make([]value, len(a))
		for i := range a {
			r[i] = ps.iteValue(c, a[i], bb[i])
		}
		return r
	case string, symstr:
		ab, bb := strBytes(a), strBytes(b)
		if len(ab) != len(bb) {
			if ps.decide(c) {
				return a
			}
			return b
		}
		r := make(symstr, len(ab))
		for i := range ab {
			r[i] = ps.iteValue(c, ab[i], bb[i])
		}
		return normStr(r)
	}
	if k, ok := valueKind(a); ok {
		if _, ok2 := valueKind(b); ok2 {
			return mk(ps.ts.Ite(c, ps.lift(a), ps.lift(b)), k)
		}
	}
	// anything else (pointers, interfaces, maps...): fork
	if ps.decide(c) {
		return a
	}
	return b
}

// strBytes returns the bytes of a string or symstr as values.
func strBytes(x value) []value {
	switch x := x.(type) {
	case string:
		r := make([]value, len(x))
		for i := 0; i < len(x); i++ {
			r[i] = x[i]
		}
		return r
	case symstr:
		return []value(x)
	}
	panic(fmt.Sprintf("strBytes: %T", x))
}

// normStr turns a symstr with only concrete bytes back into a Go string.
func normStr(s symstr) value {
	for _, b := range s {
		if _, ok := b.(uint8); !ok {
			return s
		}
	}
	bs := make([]byte, len(s))
	for i, b := range s {
		bs[i] = b.(uint8)
	}
	return string(bs)
}

func strLen(x value) int {
	switch x := x.(type) {
	case string:
		return len(x)
	case symstr:
		return len(x)
	}
	panic(fmt.Sprintf("strLen: %T", x))
}

// rtErr is the value carried by runtime-error target panics.
type rtErr string
