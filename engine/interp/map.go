package interp

// Equality (possibly symbolic) and the interpreter's map representation:
// an insertion-ordered association list with a fast index for concrete keys.
// A lookup with a symbolic key (or against entries with symbolic keys) forks
// per candidate entry with the equality in the path condition.

import (
	"fmt"
	"go/types"
	"strings"
	"unsafe"
)

// sameType is a nil-tolerant variant of types.Identical.
func sameType(x, y types.Type) bool {
	if x == nil {
		return y == nil
	}
	return y != nil && types.Identical(x, y)
}

// eqv returns x == y for type t as a value: a bool, or a *sym of kind Bool.
func (ps *pathState) eqv(t types.Type, x, y value) value {
	switch x := x.(type) {
	case bool, int, int8, int16, int32, int64, uint, uint8, uint16, uint32, uint64, uintptr:
		if _, ok := y.(*sym); ok {
			return mkBool(ps.ts.Eq(ps.lift(x), ps.lift(y)))
		}
		return x == y
	case *sym:
		return mkBool(ps.ts.Eq(x.t, ps.lift(y)))
	case float32:
		return x == y.(float32)
	case float64:
		if yf, ok := y.(float64); ok {
			return x == yf
		}
		return ps.floatCmp("==", x, y)
	case *symf:
		return ps.floatCmp("==", x, y)
	case complex64:
		return x == y.(complex64)
	case complex128:
		return x == y.(complex128)
	case string:
		if ys, ok := y.(string); ok {
			return x == ys
		}
		return ps.strEq(x, y)
	case symstr:
		return ps.strEq(x, y)
	case *value:
		return x == y.(*value)
	case *chanT:
		return x == y.(*chanT)
	case unsafe.Pointer:
		return x == y.(unsafe.Pointer)
	case structure:
		yy := y.(structure)
		var tStruct *types.Struct
		if t != nil {
			tStruct, _ = t.Underlying().(*types.Struct)
		}
		acc := ps.ts.Bool(true)
		for i := range x {
			var ft types.Type
			if tStruct != nil {
				f := tStruct.Field(i)
				if f.Name() == "_" {
					continue
				}
				ft = f.Type()
			}
			r := ps.eqv(ft, x[i], yy[i])
			if b, ok := r.(bool); ok {
				if !b {
					return false
				}
				continue
			}
			acc = ps.ts.And(acc, r.(*sym).t)
		}
		return mkBool(acc)
	case array:
		yy := y.(array)
		var et types.Type
		if t != nil {
			if ta, ok := t.Underlying().(*types.Array); ok {
				et = ta.Elem()
			}
		}
		acc := ps.ts.Bool(true)
		for i := range x {
			r := ps.eqv(et, x[i], yy[i])
			if b, ok := r.(bool); ok {
				if !b {
					return false
				}
				continue
			}
			acc = ps.ts.And(acc, r.(*sym).t)
		}
		return mkBool(acc)
	case iface:
		yy := y.(iface)
		if !sameType(x.t, yy.t) {
			return false
		}
		if x.t == nil {
			return true
		}
		if !types.Comparable(x.t) {
			panic(targetPanic{v: rtErr("runtime error: comparing uncomparable type " + x.t.String())})
		}
		return ps.eqv(x.t, x.v, yy.v)
	case rtype:
		return types.Identical(x.t, y.(rtype).t)
	}
	panic(fmt.Sprintf("comparing uncomparable type %s (%T)", t, x))
}

func (ps *pathState) strEq(x, y value) value {
	a, b := strBytes(x), strBytes(y)
	if len(a) != len(b) {
		return false
	}
	acc := ps.ts.Bool(true)
	for i := range a {
		r := ps.eqv(nil, a[i], b[i])
		if bb, ok := r.(bool); ok {
			if !bb {
				return false
			}
			continue
		}
		acc = ps.ts.And(acc, r.(*sym).t)
	}
	return mkBool(acc)
}

// strLess returns x < y (lexicographic, bytewise) as a value.
func (ps *pathState) strLess(x, y value, orEqual bool) value {
	a, b := strBytes(x), strBytes(y)
	n := len(a)
	if len(b) < n {
		n = len(b)
	}
	// result for equal common prefix
	var tail *Term
	if orEqual {
		tail = ps.ts.Bool(len(a) <= len(b))
	} else {
		tail = ps.ts.Bool(len(a) < len(b))
	}
	res := tail
	for i := n - 1; i >= 0; i-- {
		ai, bi := ps.lift(a[i]), ps.lift(b[i])
		lt := ps.ts.BVCmp(OpBVULt, ai, bi)
		eq := ps.ts.Eq(ai, bi)
		res = ps.ts.Or(lt, ps.ts.And(eq, res))
	}
	return mkBool(res)
}

// ---- key fingerprints ----

// keyFP returns a comparable fingerprint for a fully concrete key.
func keyFP(v value) (interface{}, bool) {
	switch v := v.(type) {
	case bool, int, int8, int16, int32, int64, uint, uint8, uint16, uint32, uint64, uintptr,
		float32, float64, complex64, complex128, string, *value, *chanT, unsafe.Pointer:
		return v, true
	case *sym, symstr, *symf:
		return nil, false
	case rtype:
		return "rtype:" + v.t.String(), true
	case structure, array, iface:
		var sb strings.Builder
		if !writeFP(&sb, v) {
			return nil, false
		}
		return sb.String(), true
	}
	panic(fmt.Sprintf("unhashable map key type %T", v))
}

func writeFP(sb *strings.Builder, v value) bool {
	switch v := v.(type) {
	case *sym, symstr, *symf:
		return false
	case structure:
		sb.WriteString("{")
		for _, e := range v {
			if !writeFP(sb, e) {
				return false
			}
			sb.WriteString(",")
		}
		sb.WriteString("}")
	case array:
		sb.WriteString("[")
		for _, e := range v {
			if !writeFP(sb, e) {
				return false
			}
			sb.WriteString(",")
		}
		sb.WriteString("]")
	case iface:
		if v.t == nil {
			sb.WriteString("<nil>")
			return true
		}
		sb.WriteString("(" + v.t.String() + ":")
		if !writeFP(sb, v.v) {
			return false
		}
		sb.WriteString(")")
	case string:
		fmt.Fprintf(sb, "%q", v)
	case *value:
		fmt.Fprintf(sb, "%p", v)
	case *chanT:
		fmt.Fprintf(sb, "%p", v)
	case rtype:
		sb.WriteString("rtype:" + v.t.String())
	default:
		fmt.Fprintf(sb, "%T:%v", v, v)
	}
	return true
}

// ---- maps ----

type mentry struct {
	key     value
	val     value
	deleted bool
}

type smap struct {
	keyType types.Type
	order   []*mentry
	conc    map[interface{}]*mentry
	symKeys []*mentry
	live    int
}

func makeMap(kt types.Type, reserve int64) value {
	return &smap{keyType: kt, conc: make(map[interface{}]*mentry)}
}

func (m *smap) len() int {
	if m == nil {
		return 0
	}
	return m.live
}

// find returns the entry for key k, or nil.
func (ps *pathState) mapFind(m *smap, k value) *mentry {
	if m == nil {
		return nil
	}
	if fp, ok := keyFP(k); ok {
		if e := m.conc[fp]; e != nil {
			return e
		}
		for _, e := range m.symKeys {
			if ps.truth(ps.eqv(m.keyType, k, e.key)) {
				return e
			}
		}
		return nil
	}
	for _, e := range m.order {
		if e.deleted {
			continue
		}
		if ps.truth(ps.eqv(m.keyType, k, e.key)) {
			return e
		}
	}
	return nil
}

func (ps *pathState) mapInsert(m *smap, k, v value) {
	if e := ps.mapFind(m, k); e != nil {
		e.val = v
		return
	}
	e := &mentry{key: k, val: v}
	m.order = append(m.order, e)
	if fp, ok := keyFP(k); ok {
		m.conc[fp] = e
	} else {
		m.symKeys = append(m.symKeys, e)
	}
	m.live++
}

func (ps *pathState) mapDelete(m *smap, k value) {
	e := ps.mapFind(m, k)
	if e == nil {
		return
	}
	e.deleted = true
	m.live--
	if fp, ok := keyFP(e.key); ok {
		delete(m.conc, fp)
	} else {
		for i, s := range m.symKeys {
			if s == e {
				m.symKeys = append(m.symKeys[:i:i], m.symKeys[i+1:]...)
				break
			}
		}
	}
	// compact lazily
	if len(m.order) > 32 && m.live*2 < len(m.order) {
		no := make([]*mentry, 0, m.live)
		for _, x := range m.order {
			if !x.deleted {
				no = append(no, x)
			}
		}
		m.order = no
	}
}

func (m *smap) clear() {
	for _, e := range m.order {
		e.deleted = true
	}
	m.order = nil
	m.conc = make(map[interface{}]*mentry)
	m.symKeys = nil
	m.live = 0
}

// smapIter iterates in insertion order over a snapshot of the entries taken
// at range start; entries deleted during iteration are skipped, entries added
// during iteration are not visited (both permitted by the Go spec).
type smapIter struct {
	entries []*mentry
	i       int
}

func (it *smapIter) next() tuple {
	for it.i < len(it.entries) {
		e := it.entries[it.i]
		it.i++
		if e.deleted {
			continue
		}
		return tuple{true, e.key, e.val}
	}
	return tuple{false, nil, nil}
}
