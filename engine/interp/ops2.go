package interp

// Symbolic-aware wrappers around the concrete operator implementations, plus
// explicit runtime-panic semantics (so that "never panics" is decidable and
// engine crashes are never mistaken for target panics).

import (
	"bytes"
	"fmt"
	"go/token"
	"go/types"
	"os"
	"unsafe"

	"golang.org/x/tools/go/ssa"
)

func mustDeref(t types.Type) types.Type {
	if p, ok := t.Underlying().(*types.Pointer); ok {
		return p.Elem()
	}
	panic(fmt.Sprintf("mustDeref: not a pointer: %v", t))
}

func rtPanic(msg string) {
	panic(targetPanic{v: rtErr("runtime error: " + msg)})
}

func isStrVal(x value) bool {
	switch x.(type) {
	case string, symstr:
		return true
	}
	return false
}

func (ps *pathState) binop(op token.Token, t types.Type, x, y value) value {
	switch op {
	case token.EQL:
		return ps.eqnil(t, x, y)
	case token.NEQ:
		r := ps.eqnil(t, x, y)
		if b, ok := r.(bool); ok {
			return !b
		}
		return mkBool(ps.ts.Not(r.(*sym).t))
	}
	_, xs := x.(*sym)
	_, ys := y.(*sym)
	if xs || ys {
		return ps.symBinop(op, x, y)
	}
	if _, ok := x.(symstr); ok || isSymstr(y) {
		if isStrVal(x) && isStrVal(y) {
			switch op {
			case token.ADD:
				return normStr(append(append(symstr{}, strBytes(x)...), strBytes(y)...))
			case token.LSS:
				return ps.strLess(x, y, false)
			case token.LEQ:
				return ps.strLess(x, y, true)
			case token.GTR:
				return ps.strLess(y, x, false)
			case token.GEQ:
				return ps.strLess(y, x, true)
			}
		}
	}
	if isSymf(x) || isSymf(y) {
		return ps.floatBinop(op, x, y)
	}
	switch op {
	case token.QUO, token.REM:
		if k, ok := concreteKind(y); ok && isIntKind(k) && asUint64Any(y) == 0 {
			rtPanic("integer divide by zero")
		}
	case token.SHL, token.SHR:
		if k, ok := concreteKind(y); ok && kindSigned(k) && asInt64(y) < 0 {
			rtPanic("negative shift amount")
		}
	}
	return binopConcrete(op, t, x, y)
}

func isSymstr(x value) bool {
	_, ok := x.(symstr)
	return ok
}

// eqnil returns the comparison x == y using the equivalence relation
// appropriate for type t.  If t is a reference type, at most one of x or y
// may be a nil value of that type.
func (ps *pathState) eqnil(t types.Type, x, y value) value {
	switch t.Underlying().(type) {
	case *types.Map, *types.Signature, *types.Slice:
		switch x := x.(type) {
		case *smap:
			return (x != nil) == (y.(*smap) != nil)
		case *ssa.Function:
			switch y := y.(type) {
			case *ssa.Function:
				return (x != nil) == (y != nil)
			case *closure:
				return false
			}
		case *closure:
			switch y := y.(type) {
			case *ssa.Function:
				return (x != nil) == (y != nil)
			case *closure:
				return x == y
			}
		case []value:
			return (x != nil) == (y.([]value) != nil)
		}
		panic(fmt.Sprintf("eqnil(%s): illegal dynamic type: %T", t, x))
	}
	return ps.eqv(t, x, y)
}

func (ps *pathState) unop(instr *ssa.UnOp, x value, fr *frame) value {
	switch instr.Op {
	case token.ARROW: // receive
		v, ok := fr.i.chanRecv(x.(*chanT))
		if !ok {
			v = zero(instr.X.Type().Underlying().(*types.Chan).Elem())
		}
		if instr.CommaOk {
			v = tuple{v, ok}
		}
		return v
	case token.MUL:
		p := x.(*value)
		if p == nil {
			rtPanic("invalid memory address or nil pointer dereference")
		}
		return load(mustDeref(instr.X.Type()), p)
	}
	if s, ok := x.(*sym); ok {
		return ps.symUnop(instr.Op, s)
	}
	if f, ok := x.(*symf); ok {
		return ps.floatNeg(f)
	}
	switch instr.Op {
	case token.SUB:
		switch x := x.(type) {
		case int:
			return -x
		case int8:
			return -x
		case int16:
			return -x
		case int32:
			return -x
		case int64:
			return -x
		case uint:
			return -x
		case uint8:
			return -x
		case uint16:
			return -x
		case uint32:
			return -x
		case uint64:
			return -x
		case uintptr:
			return -x
		case float32:
			return -x
		case float64:
			return -x
		case complex64:
			return -x
		case complex128:
			return -x
		}
	case token.NOT:
		return !x.(bool)
	case token.XOR:
		switch x := x.(type) {
		case int:
			return ^x
		case int8:
			return ^x
		case int16:
			return ^x
		case int32:
			return ^x
		case int64:
			return ^x
		case uint:
			return ^x
		case uint8:
			return ^x
		case uint16:
			return ^x
		case uint32:
			return ^x
		case uint64:
			return ^x
		case uintptr:
			return ^x
		}
	}
	panic(fmt.Sprintf("invalid unary op %s %T", instr.Op, x))
}

// indexCheck returns a concrete, in-range index or raises a target panic.
func (ps *pathState) indexCheck(idx value, n int, what string) int {
	if s, ok := idx.(*sym); ok {
		w := kindWidth(s.k)
		var oob *Term
		if kindSigned(s.k) {
			oob = ps.ts.Or(ps.ts.BVCmp(OpBVSLt, s.t, ps.ts.BV(0, w)), ps.ts.BVCmp(OpBVSLe, ps.ts.BV(uint64(n), w), s.t))
		} else {
			oob = ps.ts.BVCmp(OpBVULe, ps.ts.BV(uint64(n), w), s.t)
		}
		if ps.decide(oob) {
			rtPanic(fmt.Sprintf("index out of range [symbolic] with length %d", n))
		}
		saved := ps.cfg.ConcretizeCap
		if n+1 > saved {
			ps.cfg.ConcretizeCap = n + 1
		}
		v := ps.concInt(idx, what)
		ps.cfg.ConcretizeCap = saved
		return int(v)
	}
	i := asInt64(idx)
	if k, _ := concreteKind(idx); !kindSigned(k) && asUint64Any(idx) > uint64(1<<62) {
		i = -1
	}
	if i < 0 || i >= int64(n) {
		rtPanic(fmt.Sprintf("index out of range [%d] with length %d", i, n))
	}
	return int(i)
}

// boundVal concretises a slice bound within [0, limit].
func (ps *pathState) boundVal(b value, limit int, what string) int64 {
	if s, ok := b.(*sym); ok {
		w := kindWidth(s.k)
		var oob *Term
		if kindSigned(s.k) {
			oob = ps.ts.Or(ps.ts.BVCmp(OpBVSLt, s.t, ps.ts.BV(0, w)), ps.ts.BVCmp(OpBVSLt, ps.ts.BV(uint64(limit), w), s.t))
		} else {
			oob = ps.ts.BVCmp(OpBVULt, ps.ts.BV(uint64(limit), w), s.t)
		}
		if ps.decide(oob) {
			rtPanic(fmt.Sprintf("slice bounds out of range [symbolic] with capacity %d", limit))
		}
		saved := ps.cfg.ConcretizeCap
		if limit+2 > saved {
			ps.cfg.ConcretizeCap = limit + 2
		}
		v := ps.concInt(b, what)
		ps.cfg.ConcretizeCap = saved
		return v
	}
	return asInt64(b)
}

// slice returns x[lo:hi:max].  Any of lo, hi and max may be nil.
func (ps *pathState) slice(x, lo, hi, max value) value {
	var Len, Cap int
	switch x := x.(type) {
	case string:
		Len = len(x)
		Cap = Len
	case symstr:
		Len = len(x)
		Cap = Len
	case []value:
		Len = len(x)
		Cap = cap(x)
	case *value: // *array
		if x == nil {
			rtPanic("invalid memory address or nil pointer dereference")
		}
		a := (*x).(array)
		Len = len(a)
		Cap = cap(a)
	}
	l := int64(0)
	if lo != nil {
		l = ps.boundVal(lo, Cap, "slice low bound")
	}
	h := int64(Len)
	if hi != nil {
		h = ps.boundVal(hi, Cap, "slice high bound")
	}
	m := int64(Cap)
	if max != nil {
		m = ps.boundVal(max, Cap, "slice max bound")
	}
	if l < 0 || h < l || m < h || m > int64(Cap) {
		rtPanic(fmt.Sprintf("slice bounds out of range [%d:%d:%d] with capacity %d", l, h, m, Cap))
	}
	switch x := x.(type) {
	case string:
		return x[l:h]
	case symstr:
		return normStr(x[l:h:h])
	case []value:
		return x[l:h:m]
	case *value: // *array
		a := (*x).(array)
		return []value(a)[l:h:m]
	}
	panic(fmt.Sprintf("slice: unexpected X type: %T", x))
}

// lookup returns x[idx] where x is a map.
func (ps *pathState) lookup(instr *ssa.Lookup, x, idx value) value {
	m, ok := x.(*smap)
	if !ok {
		panic(fmt.Sprintf("unexpected x type in Lookup: %T", x))
	}
	var v value
	e := ps.mapFind(m, idx)
	found := e != nil
	if found {
		v = copyVal(e.val)
	} else {
		v = zero(instr.X.Type().Underlying().(*types.Map).Elem())
	}
	if instr.CommaOk {
		v = tuple{v, found}
	}
	return v
}

// copyVal copies aggregates so that map/channel contents are never aliased.
func copyVal(v value) value {
	switch v := v.(type) {
	case structure:
		a := make(structure, len(v))
		for i := range v {
			a[i] = copyVal(v[i])
		}
		return a
	case array:
		a := make(array, len(v))
		for i := range v {
			a[i] = copyVal(v[i])
		}
		return a
	}
	return v
}

func typeAssert(i *interpreter, instr *ssa.TypeAssert, itf iface) value {
	var v value
	err := ""
	if itf.t == nil {
		err = fmt.Sprintf("interface conversion: interface is nil, not %s", instr.AssertedType)
	} else if idst, ok := instr.AssertedType.Underlying().(*types.Interface); ok {
		v = itf
		err = checkInterface(i, idst, itf)
	} else if types.Identical(itf.t, instr.AssertedType) {
		v = itf.v // extract value
	} else {
		err = fmt.Sprintf("interface conversion: interface is %s, not %s", itf.t, instr.AssertedType)
	}
	if err != "" {
		if !instr.CommaOk {
			panic(targetPanic{v: rtErr(err)})
		}
		return tuple{zero(instr.AssertedType), false}
	}
	if instr.CommaOk {
		return tuple{v, true}
	}
	return v
}

func checkInterface(i *interpreter, itype *types.Interface, x iface) string {
	if x.t == rtypeType || x.t == errorType {
		return ""
	}
	if meth, _ := types.MissingMethod(x.t, itype, true); meth != nil {
		return fmt.Sprintf("interface conversion: %v is not %v: missing method %s",
			x.t, itype, meth.Name())
	}
	return "" // ok
}

func (ps *pathState) callBuiltin(caller *frame, callpos token.Pos, fn *ssa.Builtin, args []value) value {
	switch fn.Name() {
	case "append":
		if len(args) == 1 {
			return args[0]
		}
		if isStrVal(args[1]) {
			// append([]byte, ...string) []byte
			return append(args[0].([]value), strBytes(args[1])...)
		}
		// append([]T, ...[]T) []T
		src := args[1].([]value)
		dst := args[0].([]value)
		if len(src) == 0 {
			return dst
		}
		// copy aggregates (they are values)
		out := dst
		for _, e := range src {
			out = append(out, copyVal(e))
		}
		return out

	case "copy": // copy([]T, []T) int or copy([]byte, string) int
		src := args[1]
		if isStrVal(src) {
			src = strBytes(src)
		}
		d, s := args[0].([]value), src.([]value)
		n := len(d)
		if len(s) < n {
			n = len(s)
		}
		// handle overlap like memmove
		tmp := make([]value, n)
		for i := 0; i < n; i++ {
			tmp[i] = copyVal(s[i])
		}
		copy(d, tmp)
		return n

	case "close": // close(chan T)
		caller.i.chanClose(args[0].(*chanT))
		return nil

	case "delete": // delete(map[K]value, K)
		m := args[0].(*smap)
		if m != nil {
			ps.mapDelete(m, args[1])
		}
		return nil

	case "clear":
		switch x := args[0].(type) {
		case *smap:
			if x != nil {
				x.clear()
			}
		case []value:
			if len(x) > 0 {
				// need the element type
				et := fn.Type().(*types.Signature).Params().At(0).Type().Underlying().(*types.Slice).Elem()
				for i := range x {
					x[i] = zero(et)
				}
			}
		}
		return nil

	case "print", "println": // print(any, ...)
		ln := fn.Name() == "println"
		var buf bytes.Buffer
		for i, arg := range args {
			if i > 0 && ln {
				buf.WriteRune(' ')
			}
			buf.WriteString(toString(arg))
		}
		if ln {
			buf.WriteRune('\n')
		}
		if ps.cfg.Verbose {
			os.Stderr.Write(buf.Bytes())
		}
		return nil

	case "len":
		switch x := args[0].(type) {
		case string:
			return len(x)
		case symstr:
			return len(x)
		case array:
			return len(x)
		case *value:
			if x == nil {
				// len of nil *array is the array length; need type
				t := fn.Type().(*types.Signature).Params().At(0).Type()
				return int(mustDeref(t).Underlying().(*types.Array).Len())
			}
			return len((*x).(array))
		case []value:
			return len(x)
		case *smap:
			return x.len()
		case *chanT:
			if x == nil {
				return 0
			}
			return len(x.buf)
		default:
			panic(fmt.Sprintf("len: illegal operand: %T", x))
		}

	case "cap":
		switch x := args[0].(type) {
		case array:
			return cap(x)
		case *value:
			return cap((*x).(array))
		case []value:
			return cap(x)
		case *chanT:
			if x == nil {
				return 0
			}
			return x.cap
		default:
			panic(fmt.Sprintf("cap: illegal operand: %T", x))
		}

	case "min":
		x := args[0]
		for _, a := range args[1:] {
			x = ps.minmax(x, a, true)
		}
		return x
	case "max":
		x := args[0]
		for _, a := range args[1:] {
			x = ps.minmax(x, a, false)
		}
		return x

	case "real":
		switch c := args[0].(type) {
		case complex64:
			return real(c)
		case complex128:
			return real(c)
		}
	case "imag":
		switch c := args[0].(type) {
		case complex64:
			return imag(c)
		case complex128:
			return imag(c)
		}
	case "complex":
		switch f := args[0].(type) {
		case float32:
			return complex(f, args[1].(float32))
		case float64:
			return complex(f, args[1].(float64))
		}

	case "panic":
		panic(targetPanic{v: args[0]})

	case "recover":
		return doRecover(caller)

	case "ssa:wrapnilchk":
		recv := args[0]
		if recv.(*value) == nil {
			recvType := args[1]
			methodName := args[2]
			panic(targetPanic{v: rtErr(fmt.Sprintf("value method (%s).%s called using nil *%s pointer",
				recvType, methodName, recvType))})
		}
		return recv

	case "ssa:deferstack":
		return &caller.defers
	}

	panic("unknown built-in: " + fn.Name())
}

func (ps *pathState) minmax(x, y value, isMin bool) value {
	switch xf := x.(type) {
	case float32:
		if isMin {
			return fmin(xf, y.(float32))
		}
		return fmax(xf, y.(float32))
	case float64:
		if yf, ok := y.(float64); ok {
			if isMin {
				return fmin(xf, yf)
			}
			return fmax(xf, yf)
		}
	}
	if isStrVal(x) {
		lt := ps.truth(ps.binop(token.LSS, nil, y, x))
		if lt == isMin {
			return y
		}
		return x
	}
	if isSymf(x) || isSymf(y) {
		lt := ps.truth(ps.floatCmp("<", y, x))
		if lt == isMin {
			return y
		}
		return x
	}
	// integers: data-level ite keeps min/max out of control flow
	var c value
	if isMin {
		c = ps.binop(token.LSS, nil, y, x)
	} else {
		c = ps.binop(token.GTR, nil, y, x)
	}
	if b, ok := c.(bool); ok {
		if b {
			return y
		}
		return x
	}
	return ps.iteValue(c.(*sym).t, y, x)
}

func (ps *pathState) rangeIter(x value, t types.Type) iter {
	switch x := x.(type) {
	case *smap:
		if x == nil {
			return &smapIter{}
		}
		es := make([]*mentry, 0, x.live)
		for _, e := range x.order {
			if !e.deleted {
				es = append(es, e)
			}
		}
		return &smapIter{entries: es}
	case string:
		return newStringIter(x)
	case symstr:
		panic(engineError("range over a string with symbolic bytes is not supported"))
	}
	panic(fmt.Sprintf("cannot range over %T", x))
}

// symbolic-aware conversion.
func (ps *pathState) conv(t_dst, t_src types.Type, x value) value {
	ut_src := t_src.Underlying()
	ut_dst := t_dst.Underlying()
	switch xs := x.(type) {
	case *sym:
		if b, ok := ut_dst.(*types.Basic); ok {
			if b.Info()&types.IsInteger != 0 {
				return ps.symConvInt(xs, b.Kind())
			}
			if b.Info()&types.IsFloat != 0 {
				return ps.intToFloat(xs)
			}
			if b.Kind() == types.String {
				// string(rune) of a symbolic integer
				v := ps.concValue(xs, "integer to string conversion")
				return conv(t_dst, t_src, v)
			}
		}
		panic(fmt.Sprintf("unsupported symbolic conversion %s -> %s", t_src, t_dst))
	case *symf:
		if b, ok := ut_dst.(*types.Basic); ok {
			if b.Info()&types.IsFloat != 0 {
				return xs
			}
			if b.Info()&types.IsInteger != 0 {
				return ps.floatToInt(xs, b.Kind())
			}
		}
		panic(fmt.Sprintf("unsupported symbolic float conversion %s -> %s", t_src, t_dst))
	case symstr:
		if sl, ok := ut_dst.(*types.Slice); ok {
			if sl.Elem().Underlying().(*types.Basic).Kind() == types.Byte {
				r := make([]value, len(xs))
				copy(r, xs)
				return r
			}
			panic(engineError("[]rune of a string with symbolic bytes is not supported"))
		}
		return xs
	case []value:
		if sl, ok := ut_src.(*types.Slice); ok {
			if b, ok := sl.Elem().Underlying().(*types.Basic); ok && b.Kind() == types.Byte {
				if _, ok := ut_dst.(*types.Basic); ok {
					r := make(symstr, len(xs))
					copy(r, xs)
					return normStr(r)
				}
			}
		}
	case unsafe.Pointer:
		_ = xs
	}
	return conv(t_dst, t_src, x)
}

func sliceToArrayPointer(t_dst, t_src types.Type, x value) value {
	if _, ok := t_src.Underlying().(*types.Slice); ok {
		if ptr, ok := t_dst.Underlying().(*types.Pointer); ok {
			if arr, ok := ptr.Elem().Underlying().(*types.Array); ok {
				x := x.([]value)
				if arr.Len() > int64(len(x)) {
					rtPanic("cannot convert slice with length to array or pointer to array with greater length")
				}
				if x == nil {
					return zero(t_dst)
				}
				v := value(array(x[:arr.Len()]))
				return &v
			}
		}
	}
	panic(fmt.Sprintf("unsupported conversion: %s  -> %s, dynamic type %T", t_src, t_dst, x))
}
