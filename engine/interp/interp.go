// Package interp is a path-wise symbolic (concolic) interpreter for go/ssa,
// adapted from golang.org/x/tools/go/ssa/interp (BSD licence, The Go Authors).
//
// Values are boxed as in the original; scalars may additionally be *sym
// (an SMT term), strings may be symstr, maps are *smap, channels *chanT.
package interp

import (
	"fmt"
	"go/token"
	"go/types"
	"os"
	"slices"
	"strings"

	"golang.org/x/tools/go/ssa"
)

type continuation int

const (
	kNext continuation = iota
	kReturn
	kJump
)

type methodSet map[string]*ssa.Function

// State of one interpreted execution (one path).
type interpreter struct {
	prog               *ssa.Program
	globals            map[*ssa.Global]*value
	reflectPackage     *ssa.Package
	errorMethods       methodSet
	rtypeMethods       methodSet
	runtimeErrorString types.Type
	sizes              types.Sizes

	ps      *pathState
	env     *Env
	sch     *sched

	pkgInit   map[*ssa.Package]int // 0 = no, 1 = running, 2 = done
	built     map[*ssa.Package]bool
	depth     int
	side      map[*value]interface{} // side tables for modelled objects (big.Int terms, mutex state...)
	sideOrder []*value
	objSeq    int
	bigSym    map[*value]*Term
	fs        *vfs
}

type deferred struct {
	fn    value
	args  []value
	instr *ssa.Defer
	tail  *deferred
}

type frame struct {
	i                *interpreter
	caller           *frame
	fn               *ssa.Function
	block, prevBlock *ssa.BasicBlock
	env              map[ssa.Value]value // dynamic values of SSA variables
	locals           []value
	defers           *deferred
	result           value
	panicking        bool
	panic            interface{}
	phitemps         []value // temporaries for parallel phi assignment
	pos              token.Pos
}

func (fr *frame) get(key ssa.Value) value {
	switch key := key.(type) {
	case nil:
		return nil
	case *ssa.Function, *ssa.Builtin:
		return key
	case *ssa.Const:
		return constValue(key)
	case *ssa.Global:
		return fr.i.globalAddr(key)
	}
	if r, ok := fr.env[key]; ok {
		return r
	}
	panic(fmt.Sprintf("get: no value for %T: %v", key, key.Name()))
}

// globalAddr returns the address of a global, initialising its package on
// first use (lazy package initialisation).
func (i *interpreter) globalAddr(g *ssa.Global) *value {
	if g.Pkg != nil && i.pkgInit[g.Pkg] == 0 {
		i.initPackage(g.Pkg)
	}
	if r, ok := i.globals[g]; ok {
		return r
	}
	if mk, ok := specialGlobals[g.String()]; ok {
		cell := mk(i)
		p := &cell
		i.globals[g] = p
		return p
	}
	if g.Pkg != nil {
		path := g.Pkg.Pkg.Path()
		if (i.env.opaque(path) || i.env.noInit(path)) && i.env.hasInitializer(g) && !i.env.zeroOK(g) {
			if msg, ok := i.env.constErrorInit(g); ok {
				// `var ErrX = errors.New("...")` of a never-initialised package: a fresh sentinel
				cell := i.makeError(msg, nil)
				p := &cell
				i.globals[g] = p
				return p
			}
			panic(engineError("read of package-level variable " + g.String() + " whose package is never initialised by the engine (would be a silent zero)"))
		}
	}
	cell := zero(mustDeref(g.Type()))
	p := &cell
	i.globals[g] = p
	return p
}

func (i *interpreter) initPackage(pkg *ssa.Package) {
	if i.pkgInit[pkg] != 0 {
		return
	}
	path := pkg.Pkg.Path()
	if i.env.opaque(path) || i.env.noInit(path) {
		// never initialised: reading an initialised global is an error
		i.pkgInit[pkg] = 2
		return
	}
	i.pkgInit[pkg] = 1
	pkg.Build()
	if init := pkg.Func("init"); init != nil {
		saved := i.ps.cfg.inInit
		i.ps.cfg.inInit++
		call(i, nil, token.NoPos, init, nil)
		i.ps.cfg.inInit = saved
	}
	i.pkgInit[pkg] = 2
}

// runDefer runs a deferred call d.
// It always returns normally, but may set or clear fr.panic.
func (fr *frame) runDefer(d *deferred) {
	var ok bool
	defer func() {
		if !ok {
			r := recover()
			if _, isTP := r.(targetPanic); !isTP {
				panic(r) // engine-level unwinding: propagate untouched
			}
			// Deferred call created a new state of panic.
			fr.panicking = true
			fr.panic = r
		}
	}()
	call(fr.i, fr, d.instr.Pos(), d.fn, d.args)
	ok = true
}

func (fr *frame) runDefers() {
	for d := fr.defers; d != nil; d = d.tail {
		fr.runDefer(d)
	}
	fr.defers = nil
	if fr.panicking {
		panic(fr.panic) // new panic, or still panicking
	}
}

func lookupMethod(i *interpreter, typ types.Type, meth *types.Func) *ssa.Function {
	switch typ {
	case rtypeType:
		return i.rtypeMethods[meth.Id()]
	case errorType:
		return i.errorMethods[meth.Id()]
	}
	return i.prog.LookupMethod(typ, meth.Pkg(), meth.Name())
}

func (fr *frame) where() string {
	if fr == nil || fr.fn == nil {
		return ""
	}
	p := fr.fn.Prog.Fset.Position(fr.pos)
	return fmt.Sprintf("%s (%s:%d)", fr.fn.String(), shortPath(p.Filename), p.Line)
}

func shortPath(p string) string {
	if idx := strings.Index(p, "/repo/"); idx >= 0 {
		return p[idx+6:]
	}
	return p
}

func (fr *frame) stack() string {
	var sb strings.Builder
	n := 0
	for f := fr; f != nil && n < 12; f = f.caller {
		sb.WriteString("    at ")
		sb.WriteString(f.where())
		sb.WriteString("\n")
		n++
	}
	return sb.String()
}

// visitInstr interprets a single ssa.Instruction within the activation
// record frame.
func visitInstr(fr *frame, instr ssa.Instruction) continuation {
	ps := fr.i.ps
	if p := instr.Pos(); p != token.NoPos {
		fr.pos = p
	}
	switch instr := instr.(type) {
	case *ssa.DebugRef:
		// no-op

	case *ssa.UnOp:
		fr.env[instr] = ps.unop(instr, fr.get(instr.X), fr)

	case *ssa.BinOp:
		fr.env[instr] = ps.binop(instr.Op, instr.X.Type(), fr.get(instr.X), fr.get(instr.Y))

	case *ssa.Call:
		fn, args := prepareCall(fr, &instr.Call)
		fr.env[instr] = call(fr.i, fr, instr.Pos(), fn, args)

	case *ssa.ChangeInterface:
		fr.env[instr] = fr.get(instr.X)

	case *ssa.ChangeType:
		fr.env[instr] = fr.get(instr.X) // (can't fail)

	case *ssa.Convert:
		fr.env[instr] = ps.conv(instr.Type(), instr.X.Type(), fr.get(instr.X))

	case *ssa.SliceToArrayPointer:
		fr.env[instr] = sliceToArrayPointer(instr.Type(), instr.X.Type(), fr.get(instr.X))

	case *ssa.MakeInterface:
		fr.env[instr] = iface{t: instr.X.Type(), v: fr.get(instr.X)}

	case *ssa.Extract:
		fr.env[instr] = fr.get(instr.Tuple).(tuple)[instr.Index]

	case *ssa.Slice:
		fr.env[instr] = ps.slice(fr.get(instr.X), fr.get(instr.Low), fr.get(instr.High), fr.get(instr.Max))

	case *ssa.Return:
		switch len(instr.Results) {
		case 0:
		case 1:
			fr.result = fr.get(instr.Results[0])
		default:
			var res []value
			for _, r := range instr.Results {
				res = append(res, fr.get(r))
			}
			fr.result = tuple(res)
		}
		fr.block = nil
		return kReturn

	case *ssa.RunDefers:
		fr.runDefers()

	case *ssa.Panic:
		panic(targetPanic{v: fr.get(instr.X)})

	case *ssa.Send:
		fr.i.chanSend(fr.get(instr.Chan).(*chanT), fr.get(instr.X))

	case *ssa.Store:
		addr := fr.get(instr.Addr).(*value)
		if addr == nil {
			rtPanic("invalid memory address or nil pointer dereference")
		}
		store(mustDeref(instr.Addr.Type()), addr, fr.get(instr.Val))

	case *ssa.If:
		succ := 1
		if ps.truth(fr.get(instr.Cond)) {
			succ = 0
		}
		fr.prevBlock, fr.block = fr.block, fr.block.Succs[succ]
		return kJump

	case *ssa.Jump:
		fr.prevBlock, fr.block = fr.block, fr.block.Succs[0]
		return kJump

	case *ssa.Defer:
		fn, args := prepareCall(fr, &instr.Call)
		defers := &fr.defers
		if into := fr.get(instr.DeferStack); into != nil {
			defers = into.(**deferred)
		}
		*defers = &deferred{
			fn:    fn,
			args:  args,
			instr: instr,
			tail:  *defers,
		}

	case *ssa.Go:
		fn, args := prepareCall(fr, &instr.Call)
		fr.i.spawn(fn, args)

	case *ssa.MakeChan:
		n := ps.concInt(fr.get(instr.Size), "channel size")
		fr.env[instr] = &chanT{cap: int(n)}

	case *ssa.Alloc:
		var addr *value
		if instr.Heap {
			// new
			addr = new(value)
			fr.env[instr] = addr
		} else {
			// local
			addr = fr.env[instr].(*value)
		}
		*addr = zero(mustDeref(instr.Type()))

	case *ssa.MakeSlice:
		ln := fr.get(instr.Len)
		cp := fr.get(instr.Cap)
		tElt := instr.Type().Underlying().(*types.Slice).Elem()
		esz := fr.i.sizes.Sizeof(tElt)
		n := ps.makeLen(ln, "make: len", esz)
		c := n
		if cp != nil {
			c = ps.makeLen(cp, "make: cap", esz)
		}
		if n > c {
			rtPanic("makeslice: cap out of range")
		}
		slice := make([]value, c)
		if isByteLike(tElt) {
			z := zero(tElt)
			for i := range slice {
				slice[i] = z
			}
		} else {
			for i := range slice {
				slice[i] = zero(tElt)
			}
		}
		fr.env[instr] = slice[:n]

	case *ssa.MakeMap:
		fr.env[instr] = makeMap(instr.Type().Underlying().(*types.Map).Key(), 0)

	case *ssa.Range:
		fr.env[instr] = ps.rangeIter(fr.get(instr.X), instr.X.Type())

	case *ssa.Next:
		fr.env[instr] = fr.get(instr.Iter).(iter).next()

	case *ssa.FieldAddr:
		p := fr.get(instr.X).(*value)
		if p == nil {
			rtPanic("invalid memory address or nil pointer dereference")
		}
		fr.env[instr] = &(*p).(structure)[instr.Field]

	case *ssa.Field:
		fr.env[instr] = fr.get(instr.X).(structure)[instr.Field]

	case *ssa.IndexAddr:
		x := fr.get(instr.X)
		idx := fr.get(instr.Index)
		switch x := x.(type) {
		case []value:
			fr.env[instr] = &x[ps.indexCheck(idx, len(x), "slice index")]
		case *value: // *array
			if x == nil {
				rtPanic("invalid memory address or nil pointer dereference")
			}
			a := (*x).(array)
			fr.env[instr] = &a[ps.indexCheck(idx, len(a), "array index")]
		default:
			panic(fmt.Sprintf("unexpected x type in IndexAddr: %T", x))
		}

	case *ssa.Index:
		x := fr.get(instr.X)
		idx := fr.get(instr.Index)
		switch x := x.(type) {
		case array:
			fr.env[instr] = copyVal(x[ps.indexCheck(idx, len(x), "array index")])
		case string:
			fr.env[instr] = x[ps.indexCheck(idx, len(x), "string index")]
		case symstr:
			fr.env[instr] = x[ps.indexCheck(idx, len(x), "string index")]
		default:
			panic(fmt.Sprintf("unexpected x type in Index: %T", x))
		}

	case *ssa.Lookup:
		x := fr.get(instr.X)
		if isStrVal(x) {
			// string index via Lookup
			bs := strBytes(x)
			fr.env[instr] = bs[ps.indexCheck(fr.get(instr.Index), len(bs), "string index")]
		} else {
			fr.env[instr] = ps.lookup(instr, x, fr.get(instr.Index))
		}

	case *ssa.MapUpdate:
		m := fr.get(instr.Map).(*smap)
		if m == nil {
			panic(targetPanic{v: rtErr("assignment to entry in nil map")})
		}
		ps.mapInsert(m, copyVal(fr.get(instr.Key)), copyVal(fr.get(instr.Value)))

	case *ssa.TypeAssert:
		fr.env[instr] = typeAssert(fr.i, instr, fr.get(instr.X).(iface))

	case *ssa.MakeClosure:
		var bindings []value
		for _, binding := range instr.Bindings {
			bindings = append(bindings, fr.get(binding))
		}
		fr.env[instr] = &closure{instr.Fn.(*ssa.Function), bindings}

	case *ssa.Phi:
		panic("unreachable: phis are processed at block entry")

	case *ssa.Select:
		fr.env[instr] = doSelect(fr, instr)

	default:
		panic(fmt.Sprintf("unexpected instruction: %T", instr))
	}
	return kNext
}

func isByteLike(t types.Type) bool {
	_, ok := t.Underlying().(*types.Basic)
	return ok
}

// makeLen concretises the length argument of make for elements of elemSize
// bytes.  Sizes the Go runtime rejects (len > maxAlloc/elemSize, maxAlloc =
// 2^48 on linux/amd64) raise the same panic the runtime raises.  Sizes above
// the engine's allocation bound are a violation "alloc-bound" when the
// harness declared a limit (verifsym.AllocLimit), otherwise the path is
// abandoned and counted as outside the claim.
func (ps *pathState) makeLen(v value, what string, elemSize int64) int {
	if elemSize <= 0 {
		elemSize = 1
	}
	maxLen := uint64(1<<48) / uint64(elemSize)
	lim := uint64(ps.cfg.AllocLimitElems())
	if ps.allocLimit > 0 {
		lim = uint64(ps.allocLimit) / uint64(elemSize)
	}
	if s, ok := v.(*sym); ok {
		w := kindWidth(s.k)
		if kindSigned(s.k) && ps.decide(ps.ts.BVCmp(OpBVSLt, s.t, ps.ts.BV(0, w))) {
			rtPanic("makeslice: len out of range")
		}
		if w == 64 && ps.decide(ps.ts.BVCmp(OpBVULt, ps.ts.BV(maxLen, w), s.t)) {
			rtPanic("makeslice: len out of range")
		}
		if ps.decide(ps.ts.BVCmp(OpBVULt, ps.ts.BV(lim, w), s.t)) {
			// prefer a small witness so that the native replay can allocate it
			ps.tryAssume(ps.ts.BVCmp(OpBVULe, s.t, ps.ts.BV(lim*2+16, w)))
			ps.allocTooLarge(what)
		}
		return int(ps.concInt(v, what))
	}
	n := asInt64(v)
	if k, _ := concreteKind(v); !kindSigned(k) && asUint64Any(v) > 1<<62 {
		n = -1
	}
	if n < 0 || uint64(n) > maxLen {
		rtPanic("makeslice: len out of range")
	}
	if uint64(n) > lim {
		ps.allocTooLarge(what)
	}
	return int(n)
}

func (ps *pathState) allocTooLarge(what string) {
	if ps.allocLimit > 0 {
		ps.obligations++
		ps.recordViolation("alloc-bound", what+": allocation exceeds the declared limit", ps.model)
		panic(pathAbort{kind: "violation-stop"})
	}
	ps.notes = append(ps.notes, "path abandoned: allocation above the engine bound (outside the claim)")
	panic(pathAbort{kind: "done"})
}

func doSelect(fr *frame, instr *ssa.Select) value {
	i := fr.i
	ready := func() int {
		for idx, st := range instr.States {
			c := fr.get(st.Chan).(*chanT)
			if st.Dir == types.RecvOnly {
				if c.canRecv() {
					return idx
				}
			} else if c.canSend() {
				return idx
			}
		}
		return -1
	}
	chosen := ready()
	if chosen < 0 && instr.Blocking {
		// register as a waiting receiver on every recv case so that unbuffered
		// senders in other selects can see us
		for _, st := range instr.States {
			if st.Dir == types.RecvOnly {
				if c := fr.get(st.Chan).(*chanT); c != nil {
					c.recvWaiting++
				}
			}
		}
		i.yieldUntil(func() bool { return ready() >= 0 }, "select with no ready case")
		for _, st := range instr.States {
			if st.Dir == types.RecvOnly {
				if c := fr.get(st.Chan).(*chanT); c != nil {
					c.recvWaiting--
				}
			}
		}
		chosen = ready()
	}
	var recvVal value
	recvOk := false
	if chosen >= 0 {
		st := instr.States[chosen]
		c := fr.get(st.Chan).(*chanT)
		if st.Dir == types.RecvOnly {
			recvVal, recvOk = i.chanRecv(c)
		} else {
			i.chanSend(c, fr.get(st.Send))
		}
	}
	r := tuple{chosen, recvOk}
	for idx, st := range instr.States {
		if st.Dir == types.RecvOnly {
			var v value
			if idx == chosen && recvOk {
				v = recvVal
			} else {
				v = zero(st.Chan.Type().Underlying().(*types.Chan).Elem())
			}
			r = append(r, v)
		}
	}
	return r
}

// prepareCall determines the function value and argument values for a
// function call in a Call, Go or Defer instruction, performing
// interface method lookup if needed.
func prepareCall(fr *frame, call *ssa.CallCommon) (fn value, args []value) {
	v := fr.get(call.Value)
	if call.Method == nil {
		// Function call.
		fn = v
	} else {
		// Interface method invocation.
		recv := v.(iface)
		if recv.t == nil && call.Method.Pkg() != nil && fr.i.env.opaque(call.Method.Pkg().Path()) {
			// nil interface of an opaque (logging/metrics) package: the call is a no-op
			return opaqueCall{sig: call.Method.Type().(*types.Signature)}, nil
		}
		if recv.t == nil {
			rtPanic("invalid memory address or nil pointer dereference (method " + call.Method.Name() + " invoked on nil interface)")
		}
		if f := lookupMethod(fr.i, recv.t, call.Method); f == nil {
			panic(fmt.Sprintf("method set for dynamic type %v does not contain %s", recv.t, call.Method))
		} else {
			fn = f
		}
		args = append(args, recv.v)
	}
	for _, arg := range call.Args {
		args = append(args, fr.get(arg))
	}
	return
}

// call interprets a call to a function (function, builtin or closure)
// fn with arguments args, returning its result.
func call(i *interpreter, caller *frame, callpos token.Pos, fn value, args []value) value {
	switch fn := fn.(type) {
	case *ssa.Function:
		if fn == nil {
			rtPanic("invalid memory address or nil pointer dereference (call of nil function)")
		}
		return callSSA(i, caller, callpos, fn, args, nil)
	case *closure:
		return callSSA(i, caller, callpos, fn.Fn, args, fn.Env)
	case *ssa.Builtin:
		return i.ps.callBuiltin(caller, callpos, fn, args)
	case opaqueCall:
		return opaqueZero(fn.sig.Results())
	}
	panic(fmt.Sprintf("cannot call %T", fn))
}

type opaqueCall struct{ sig *types.Signature }

// opaqueZero is the result of a function of an opaque (logging/metrics)
// package: zero values, except that pointers to structs are fresh zeroed
// objects so that promoted-method calls on them (log.Errorf) do not fault.
func opaqueZero(t types.Type) value {
	switch t := t.(type) {
	case *types.Tuple:
		if t.Len() == 0 {
			return nil
		}
		if t.Len() == 1 {
			return opaqueZero(t.At(0).Type())
		}
		r := make(tuple, t.Len())
		for i := range r {
			r[i] = opaqueZero(t.At(i).Type())
		}
		return r
	}
	if p, ok := t.Underlying().(*types.Pointer); ok {
		if _, isStruct := p.Elem().Underlying().(*types.Struct); isStruct {
			v := zero(p.Elem())
			return &v
		}
	}
	return zero(t)
}

func funcKey(fn *ssa.Function) string {
	if o := fn.Origin(); o != nil {
		return o.String()
	}
	return fn.String()
}

// callSSA interprets a call to function fn with arguments args,
// and lexical environment env, returning its result.
func callSSA(i *interpreter, caller *frame, callpos token.Pos, fn *ssa.Function, args []value, env []value) value {
	ps := i.ps
	fr := &frame{
		i:      i,
		caller: caller, // for panic/recover
		fn:     fn,
	}
	if caller != nil {
		fr.pos = caller.pos
	}
	if fn.Parent() == nil {
		name := funcKey(fn)
		if ext := externals[name]; ext != nil {
			r := ext(fr, args)
			if _, ft := r.(fallthroughExtT); !ft {
				ps.stubsSeen[name] = true
				return r
			}
		} else {
			i.bigGuard(fn, args)
			timeGuard(fn)
		}
		if red := i.env.redirect(name); red != nil {
			ps.stubsSeen[name+" => "+red.String()] = true
			fn = red
			fr.fn = red
		} else if pkg := fnPkg(fn); pkg != nil {
			path := pkg.Pkg.Path()
			if i.env.opaque(path) {
				ps.stubsSeen["opaque:"+path] = true
				return opaqueZero(fn.Signature.Results())
			}
			if fn.Name() == "init" && fn.Synthetic != "" && fn.Signature.Recv() == nil {
				// package initialiser: lazily, and only where allowed
				if caller != nil && caller.fn.Name() == "init" && caller.fn.Synthetic != "" {
					// import-initialisation call from another package's init: defer to lazy init
					if i.pkgInit[pkg] == 0 {
						i.initPackage(pkg)
					}
					return nil
				}
			}
		}
	}
	if pkg := fnPkg(fn); pkg != nil && !i.built[pkg] && pkg.Pkg.Path() != "reflect" {
		// Build() is idempotent and blocks until a concurrent build by another
		// worker has finished (never read a half-built function).
		pkg.Build()
		i.built[pkg] = true
	}
	if fn.Blocks == nil {
		if fn.Blocks == nil {
			panic(engineError("unsupported external function (no body, no model): " + funcKey(fn) + "\n" + caller.stack()))
		}
	}
	if ps.cfg.inInit == 0 {
		if pkg := fnPkg(fn); pkg != nil && i.env.isTarget(pkg.Pkg.Path()) {
			if !ps.funcsSeen[fn.String()] {
				ps.funcsSeen[fn.String()] = true
			}
		}
	}

	// generic function body?
	if fn.TypeParams().Len() > 0 && len(fn.TypeArgs()) == 0 {
		panic("interp requires ssa.BuilderMode to include InstantiateGenerics to execute generics")
	}

	i.depth++
	if i.depth > 4000 {
		panic(engineError("call depth limit exceeded in " + fn.String()))
	}
	defer func() { i.depth-- }()

	fr.env = make(map[ssa.Value]value)
	fr.block = fn.Blocks[0]
	fr.locals = make([]value, len(fn.Locals))
	for i, l := range fn.Locals {
		fr.locals[i] = zero(mustDeref(l.Type()))
		fr.env[l] = &fr.locals[i]
	}
	for i, p := range fn.Params {
		fr.env[p] = args[i]
	}
	for i, fv := range fn.FreeVars {
		fr.env[fv] = env[i]
	}
	for fr.block != nil {
		runFrame(fr)
	}
	return fr.result
}

func fnPkg(fn *ssa.Function) *ssa.Package {
	if fn.Pkg != nil {
		return fn.Pkg
	}
	if o := fn.Origin(); o != nil && o.Pkg != nil {
		return o.Pkg
	}
	// wrappers / bound methods: use the object's package
	if obj := fn.Object(); obj != nil && obj.Pkg() != nil {
		return fn.Prog.Package(obj.Pkg())
	}
	return nil
}

// runFrame executes SSA instructions starting at fr.block and
// continuing until a return, a panic, or a recovered panic.
func runFrame(fr *frame) {
	defer func() {
		if fr.block == nil {
			return // normal return
		}
		r := recover()
		if _, ok := r.(targetPanic); !ok {
			// pathAbort, engineError, blockedError or an engine crash: propagate
			if r == nil {
				return
			}
			if _, isAbort := r.(pathAbort); !isAbort {
				if _, isEng := r.(engineCrash); !isEng {
					if _, isBlocked := r.(blockedError); !isBlocked {
						r = engineCrash{v: r, stack: fr.stack()}
					}
				}
			}
			panic(r)
		}
		if tp := r.(targetPanic); tp.stack == nil {
			st := fr.stack()
			tp.stack = &st
			r = tp
		}
		fr.panicking = true
		fr.panic = r
		fr.runDefers()
		fr.block = fr.fn.Recover
	}()

	ps := fr.i.ps
	for {
		nonPhis := executePhis(fr)
		ps.steps += int64(len(nonPhis))
		if ps.steps > ps.cfg.MaxSteps {
			ps.markInconclusive(fmt.Sprintf("step budget %d exhausted (unwinding bound) in %s", ps.cfg.MaxSteps, fr.where()))
			panic(pathAbort{kind: "inconclusive", msg: "step budget"})
		}
		for _, instr := range nonPhis {
			if visitInstr(fr, instr) == kReturn {
				return
			}
		}
	}
}

// engineCrash wraps an unexpected Go panic inside the interpreter.
type engineCrash struct {
	v     interface{}
	stack string
}

func (e engineCrash) String() string { return fmt.Sprintf("%v\n%s", e.v, e.stack) }

// executePhis executes the phi-nodes at the start of the current
// block and returns the non-phi instructions.
func executePhis(fr *frame) []ssa.Instruction {
	firstNonPhi := -1
	for i, instr := range fr.block.Instrs {
		if _, ok := instr.(*ssa.Phi); !ok {
			firstNonPhi = i
			break
		}
	}
	nonPhis := fr.block.Instrs[firstNonPhi:]
	if firstNonPhi > 0 {
		phis := fr.block.Instrs[:firstNonPhi]
		predIndex := slices.Index(fr.block.Preds, fr.prevBlock)
		fr.phitemps = fr.phitemps[:0]
		for _, phi := range phis {
			phi := phi.(*ssa.Phi)
			fr.phitemps = append(fr.phitemps, fr.get(phi.Edges[predIndex]))
		}
		for i, phi := range phis {
			fr.env[phi.(*ssa.Phi)] = fr.phitemps[i]
		}
	}
	return nonPhis
}

// doRecover implements the recover() built-in.
func doRecover(caller *frame) value {
	if caller != nil && !caller.panicking &&
		caller.caller != nil && caller.caller.panicking {
		caller.caller.panicking = false
		p := caller.caller.panic
		caller.caller.panic = nil
		switch p := p.(type) {
		case targetPanic:
			if e, ok := p.v.(rtErr); ok {
				return iface{caller.i.runtimeErrorString, string(e)}
			}
			return p.v
		default:
			panic(fmt.Sprintf("unexpected panic type %T in target call to recover()", p))
		}
	}
	return iface{}
}

func debugf(format string, args ...interface{}) {
	fmt.Fprintf(os.Stderr, format, args...)
}


// Globals of never-initialised packages that are given a value on first use.
var specialGlobals map[string]func(i *interpreter) value

func init() {
	specialGlobals = map[string]func(i *interpreter) value{
	"os.ErrInvalid":          func(i *interpreter) value { return i.pkgGlobal("io/fs", "ErrInvalid") },
	"os.ErrPermission":       func(i *interpreter) value { return i.pkgGlobal("io/fs", "ErrPermission") },
	"os.ErrExist":            func(i *interpreter) value { return i.pkgGlobal("io/fs", "ErrExist") },
	"os.ErrNotExist":         func(i *interpreter) value { return i.pkgGlobal("io/fs", "ErrNotExist") },
	"os.ErrClosed":           func(i *interpreter) value { return i.pkgGlobal("io/fs", "ErrClosed") },
	"os.ErrNoDeadline":       func(i *interpreter) value { return i.makeError("file type does not support deadline", nil) },
	"os.ErrDeadlineExceeded": func(i *interpreter) value { return i.makeError("i/o timeout", nil) },
	"os.ErrProcessDone":      func(i *interpreter) value { return i.makeError("os: process already finished", nil) },
	"os.Args":                func(i *interpreter) value { return []value{"verif"} },
	"time.utcLoc": func(i *interpreter) value {
		v := zero(i.namedType("time", "Location")).(structure)
		v[0] = "UTC"
		return v
	},
	"time.UTC":   func(i *interpreter) value { return i.pkgGlobalAddr("time", "utcLoc") },
	"time.Local": func(i *interpreter) value { return i.pkgGlobalAddr("time", "utcLoc") },
	}
}

func (i *interpreter) pkgGlobal(pkg, name string) value {
	p := i.prog.ImportedPackage(pkg)
	if p == nil {
		panic(engineError("package " + pkg + " not loaded"))
	}
	g, ok := p.Members[name].(*ssa.Global)
	if !ok {
		panic(engineError("no global " + pkg + "." + name))
	}
	return *i.globalAddr(g)
}


func (i *interpreter) pkgGlobalAddr(pkg, name string) *value {
	p := i.prog.ImportedPackage(pkg)
	if p == nil {
		panic(engineError("package " + pkg + " not loaded"))
	}
	g, ok := p.Members[name].(*ssa.Global)
	if !ok {
		panic(engineError("no global " + pkg + "." + name))
	}
	return i.globalAddr(g)
}
