package interp

// Exploration driver: runs one harness function over all feasible paths
// (concolic, generational), distributing work items over workers.

import (
	"fmt"
	"go/token"
	"go/types"
	"sort"
	"sync"
	"time"

	"golang.org/x/tools/go/ssa"
)

type ExploreConfig struct {
	Harness       string
	Workers       int
	SolverKind    string
	SolverTimeout int   // ms per query (incremental solver)
	FallbackMs    int   // ms per query for the one-shot portfolio used on unknown
	MaxSteps      int64 // per path (unwinding bound)
	MaxDecisions  int   // per path
	MaxPaths      int
	ConcretizeCap int
	AllocLimit    int // bytes
	ConcreteOnly  bool
	Verbose       bool
	StopOnFirst   bool
	Deadline      time.Time
	Tier          int
	RandomSeed    uint64
	randomInputs  bool

	inInit int
}

func (c *ExploreConfig) AllocLimitElems() int {
	if c.AllocLimit <= 0 {
		return 4 << 20
	}
	return c.AllocLimit
}

// PathSummary is a short description of one completed path (for evidence).
type PathSummary struct {
	Decisions int               `json:"decisions"`
	PCSize    int               `json:"pc_size"`
	Covers    []string          `json:"covers,omitempty"`
	Witness   map[string]string `json:"witness,omitempty"`
	Outcome   string            `json:"outcome"`
}

type Result struct {
	Harness       string
	Paths         int // feasible completed paths
	Infeasible    int
	Decisions     int64
	Steps         int64
	Obligations   int
	Discharged    int
	Assumes       int
	Violations    []*Violation
	Covers        map[string]int
	Inconclusive  []string
	EngineErrors  []string
	Funcs         map[string]bool
	Stubs         map[string]bool
	Samples       []PathSummary
	Queries       int
	Fallbacks     int
	SolverTime    time.Duration
	Wall          time.Duration
	PathBudgetHit bool
	Notes         map[string]int
}

type pathOutcome struct {
	ps      *pathState
	kind    string // "ok", "infeasible", "inconclusive", "panic", "engine-error", "blocked"
	msg     string
	elapsed time.Duration
}

// runPath executes the harness once under item.
func runPath(env *Env, cfg *ExploreConfig, solver *Solver, fn *ssa.Function, item *WorkItem) (out pathOutcome) {
	pcfg := *cfg
	ps := newPathState(&pcfg, solver, item)
	i := &interpreter{
		prog:    env.Prog,
		globals: make(map[*ssa.Global]*value),
		sizes:   env.sizes(),
		ps:      ps,
		env:     env,
		pkgInit: make(map[*ssa.Package]int),
		built:   make(map[*ssa.Package]bool),
		side:    make(map[*value]interface{}),
		bigSym:  make(map[*value]*Term),
	}
	env.setupReflect(i)
	i.initSched()
	out.ps = ps
	out.kind = "ok"
	start := time.Now()
	defer func() {
		out.elapsed = time.Since(start)
		defer i.killAll()
		if r := recover(); r != nil {
			switch r := r.(type) {
			case pathAbort:
				switch r.kind {
				case "infeasible":
					out.kind = "infeasible"
				case "inconclusive":
					out.kind = "inconclusive"
					out.msg = r.msg
				case "violation-stop":
					out.kind = "ok"
				default:
					out.kind = "ok"
				}
			case targetPanic:
				out.kind = "panic"
				out.msg = panicString(i, r)
				if r.stack != nil {
					out.msg += "\n" + *r.stack
				}
				ps.obligations++
				ps.recordViolation("panic", out.msg, ps.model)
			case blockedError:
				out.kind = "blocked"
				out.msg = r.what
				ps.obligations++
				ps.recordViolation("blocks", r.what, ps.model)
			case engineCrash:
				out.kind = "engine-error"
				out.msg = r.String()
			case engineError:
				out.kind = "engine-error"
				out.msg = string(r)
			default:
				out.kind = "engine-error"
				out.msg = fmt.Sprintf("%v", r)
			}
		}
	}()
	if runtimePkg := env.Prog.ImportedPackage("runtime"); runtimePkg != nil {
		i.runtimeErrorString = runtimePkg.Type("errorString").Object().Type()
	}
	// make sure the harness package is initialised first
	if fn.Pkg != nil {
		i.initPackage(fn.Pkg)
	}
	call(i, nil, token.NoPos, fn, nil)
	// let the remaining goroutines run until none can make progress
	i.drain()
	return
}

func panicString(i *interpreter, p targetPanic) string {
	switch v := p.v.(type) {
	case rtErr:
		return string(v)
	case iface:
		if s, ok := v.v.(string); ok {
			return s
		}
		if v.t != nil {
			// try Error() / String()
			if s := tryErrorString(i, v); s != "" {
				return v.t.String() + ": " + s
			}
			return "panic value of type " + v.t.String() + ": " + toString(v.v)
		}
	}
	return toString(p.v)
}

func tryErrorString(i *interpreter, v iface) (s string) {
	defer func() {
		if r := recover(); r != nil {
			s = ""
		}
	}()
	for _, name := range []string{"Error", "String"} {
		ms := i.prog.MethodSets.MethodSet(v.t)
		for k := 0; k < ms.Len(); k++ {
			sel := ms.At(k)
			if sel.Obj().Name() == name {
				if sig, ok := sel.Type().(*types.Signature); ok && sig.Params().Len() == 0 && sig.Results().Len() == 1 {
					f := i.prog.MethodValue(sel)
					if f != nil {
						r := call(i, nil, token.NoPos, f, []value{v.v})
						if str, ok := r.(string); ok {
							return str
						}
					}
				}
			}
		}
	}
	return ""
}

// Explore runs the harness exhaustively (within budgets).
func Explore(env *Env, cfg ExploreConfig, fn *ssa.Function) *Result {
	start := time.Now()
	res := &Result{Harness: cfg.Harness, Covers: map[string]int{}, Funcs: map[string]bool{}, Stubs: map[string]bool{}, Notes: map[string]int{}}
	if cfg.Workers <= 0 {
		cfg.Workers = 1
	}
	if cfg.MaxSteps <= 0 {
		cfg.MaxSteps = 20_000_000
	}
	if cfg.SolverKind == "" {
		cfg.SolverKind = "z3"
	}
	if cfg.SolverTimeout <= 0 {
		cfg.SolverTimeout = 2000
	}
	if cfg.FallbackMs == 0 {
		cfg.FallbackMs = 180000
	}

	var mu sync.Mutex
	cond := sync.NewCond(&mu)
	queue := []*WorkItem{{Model: Model{}}}
	active := 0
	started := 0
	stop := false

	worker := func() {
		var solver *Solver
		if !cfg.ConcreteOnly {
			var err error
			solver, err = NewSolver(cfg.SolverKind, cfg.SolverTimeout)
			if solver != nil {
				solver.Fallback = cfg.FallbackMs
			}
			if err != nil {
				mu.Lock()
				res.EngineErrors = append(res.EngineErrors, "cannot start solver: "+err.Error())
				stop = true
				cond.Broadcast()
				mu.Unlock()
				return
			}
			defer func() {
				mu.Lock()
				res.Queries += solver.Queries
				res.Fallbacks += solver.NFallback
				res.SolverTime += solver.TotalTime
				mu.Unlock()
				solver.Close()
			}()
		}
		for {
			mu.Lock()
			for len(queue) == 0 && active > 0 && !stop {
				cond.Wait()
			}
			if stop || (len(queue) == 0 && active == 0) {
				cond.Broadcast()
				mu.Unlock()
				return
			}
			if cfg.MaxPaths > 0 && started >= cfg.MaxPaths {
				res.PathBudgetHit = true
				stop = true
				cond.Broadcast()
				mu.Unlock()
				return
			}
			if !cfg.Deadline.IsZero() && time.Now().After(cfg.Deadline) {
				res.Inconclusive = append(res.Inconclusive, "time budget exhausted with work items left")
				stop = true
				cond.Broadcast()
				mu.Unlock()
				return
			}
			// LIFO: depth-first keeps the queue small
			item := queue[len(queue)-1]
			queue = queue[:len(queue)-1]
			active++
			started++
			mu.Unlock()

			out := runPath(env, &cfg, solver, fn, item)

			mu.Lock()
			active--
			ps := out.ps
			res.Decisions += int64(len(ps.decs))
			res.Steps += ps.steps
			res.Obligations += ps.obligations
			res.Discharged += ps.discharged
			res.Assumes += ps.assumes
			for k := range ps.funcsSeen {
				res.Funcs[k] = true
			}
			for k := range ps.stubsSeen {
				res.Stubs[k] = true
			}
			for _, n := range ps.notes {
				res.Notes[n]++
			}
			switch out.kind {
			case "infeasible":
				res.Infeasible++
			case "engine-error":
				res.EngineErrors = append(res.EngineErrors, out.msg)
				if len(res.EngineErrors) > 5 {
					stop = true
				}
			default:
				res.Paths++
				for k := range ps.covers {
					res.Covers[k]++
				}
			}
			for _, w := range ps.inconclusive {
				if len(res.Inconclusive) < 50 {
					res.Inconclusive = append(res.Inconclusive, w)
				}
			}
			for _, v := range ps.violations {
				v.Harness = cfg.Harness
				res.Violations = append(res.Violations, v)
			}
			if len(ps.violations) > 0 && cfg.StopOnFirst {
				stop = true
			}
			if len(res.Samples) < 5 && out.kind != "infeasible" && out.kind != "engine-error" {
				res.Samples = append(res.Samples, summarize(ps, out.kind))
			}
			queue = append(queue, ps.alts...)
			cond.Broadcast()
			mu.Unlock()
		}
	}
	var wg sync.WaitGroup
	for w := 0; w < cfg.Workers; w++ {
		wg.Add(1)
		go func() { defer wg.Done(); worker() }()
	}
	wg.Wait()
	if res.PathBudgetHit {
		res.Inconclusive = append(res.Inconclusive, fmt.Sprintf("path budget %d exhausted with work items left", cfg.MaxPaths))
	}
	res.Wall = time.Since(start)
	return res
}

func summarize(ps *pathState, outcome string) PathSummary {
	s := PathSummary{Decisions: len(ps.decs), PCSize: len(ps.pc), Outcome: outcome, Covers: sortedKeys(ps.covers), Witness: map[string]string{}}
	n := 0
	for _, in := range ps.inputs {
		if n >= 12 {
			break
		}
		s.Witness[in.Name] = inputValueString(ps.ev, in)
		n++
	}
	return s
}

func inputValueString(ev *evalCtx, in InputRec) string {
	if in.Kind == "bytes" {
		b := make([]byte, len(in.terms))
		for i, t := range in.terms {
			b[i] = byte(ev.evalU(t))
		}
		return fmt.Sprintf("%x", b)
	}
	t := in.terms[0]
	if t.sort.K == SInt {
		return ev.evalI(t).String()
	}
	v := ev.evalU(t)
	switch in.Kind {
	case "int", "int8", "int16", "int32", "int64":
		return fmt.Sprintf("%d", signExt(v, t.sort.W))
	case "bool":
		return fmt.Sprintf("%v", v != 0)
	}
	return fmt.Sprintf("%d", v)
}

// InputsJSON renders the witness inputs of a violation for the native replay.
func (v *Violation) InputsJSON() map[string]interface{} {
	ev := newEvalCtx(v.Model)
	out := map[string]interface{}{}
	for _, in := range v.Inputs {
		if in.Kind == "bytes" {
			out[in.Name] = inputValueString(ev, in)
			continue
		}
		t := in.terms[0]
		if t.sort.K == SBool {
			out[in.Name] = ev.evalU(t) != 0
		} else if t.sort.K == SInt {
			out[in.Name] = ev.evalI(t).String()
		} else {
			// as decimal string: JSON numbers lose precision above 2^53
			out[in.Name] = fmt.Sprintf("%d", ev.evalU(t))
		}
	}
	return out
}

func SortedSet(m map[string]bool) []string {
	var ks []string
	for k := range m {
		ks = append(ks, k)
	}
	sort.Strings(ks)
	return ks
}

// ---- concrete self-check support ----

type ConcreteRun struct {
	Inputs         map[string]interface{}
	Failures       []string
	AssumeViolated bool
	Panicked       string
	Trace          []string
	EngineError    string
}

// RunConcrete executes the harness once with pseudo-random concrete inputs
// derived from seed (no solver involved).
func RunConcrete(env *Env, fn *ssa.Function, seed uint64, tier int) *ConcreteRun {
	cfg := &ExploreConfig{Harness: fn.Name(), ConcreteOnly: true, MaxSteps: 50_000_000, Tier: tier, RandomSeed: seed, randomInputs: true}
	out := runPath(env, cfg, nil, fn, &WorkItem{Model: Model{}})
	ps := out.ps
	cr := &ConcreteRun{Inputs: map[string]interface{}{}, Trace: ps.trace}
	ev := newEvalCtx(ps.model)
	for _, in := range ps.inputs {
		if in.Kind == "bytes" {
			cr.Inputs[in.Name] = inputValueString(ev, in)
		} else if in.terms[0].sort.K == SBool {
			cr.Inputs[in.Name] = ev.evalU(in.terms[0]) != 0
		} else if in.terms[0].sort.K == SInt {
			cr.Inputs[in.Name] = ev.evalI(in.terms[0]).String()
		} else {
			cr.Inputs[in.Name] = fmt.Sprintf("%d", ev.evalU(in.terms[0]))
		}
	}
	switch out.kind {
	case "infeasible":
		cr.AssumeViolated = true
	case "panic":
		cr.Panicked = out.msg
	case "engine-error", "inconclusive", "blocked":
		cr.EngineError = out.kind + ": " + out.msg
	}
	for _, v := range ps.violations {
		if v.Label != "panic" {
			cr.Failures = append(cr.Failures, v.Label)
		}
	}
	return cr
}

// randomBits derives a value for input `name`, biased towards boundary values.
func randomBits(seed uint64, name string, w int) uint64 {
	h := seed*0x9E3779B97F4A7C15 + 0x1234567
	for i := 0; i < len(name); i++ {
		h ^= uint64(name[i])
		h *= 0x100000001b3
		h ^= h >> 29
	}
	h ^= h >> 32
	h *= 0xd6e8feb86659fd93
	h ^= h >> 32
	m := mask(maxi(w, 1))
	switch h % 8 {
	case 0:
		return 0
	case 1:
		return 1 & m
	case 2:
		return (h >> 8) % 4
	case 3:
		return (h >> 8) % 70000 & m
	case 4:
		return m
	case 5:
		return (m >> 1) - (h>>8)%3
	default:
		return (h >> 8) & m
	}
}
