package interp

// Hash-consed SMT term DAG with constant folding, an evaluator (used for
// concolic execution: the current model drives the path) and an SMT-LIB2
// printer.  Bit-vectors are at most 64 bits wide; Int is unbounded.

import (
	"fmt"
	"math/big"
	"strings"
)

type SortKind uint8

const (
	SBool SortKind = iota
	SBV
	SInt
)

type Sort struct {
	K SortKind
	W int // width for SBV
}

func (s Sort) String() string {
	switch s.K {
	case SBool:
		return "Bool"
	case SBV:
		return fmt.Sprintf("(_ BitVec %d)", s.W)
	default:
		return "Int"
	}
}

var sortBool = Sort{K: SBool}
var sortInt = Sort{K: SInt}

func bvSort(w int) Sort { return Sort{K: SBV, W: w} }

type Op uint8

const (
	OpVar Op = iota
	OpConst
	OpNot
	OpAnd
	OpOr
	OpEq
	OpIte
	OpBVAdd
	OpBVSub
	OpBVMul
	OpBVUDiv
	OpBVURem
	OpBVSDiv
	OpBVSRem
	OpBVAnd
	OpBVOr
	OpBVXor
	OpBVNot
	OpBVNeg
	OpBVShl
	OpBVLShr
	OpBVAShr
	OpBVULt
	OpBVULe
	OpBVSLt
	OpBVSLe
	OpConcat
	OpExtract // hi, lo in aux
	OpZExt    // to sort width
	OpSExt
	OpIAdd
	OpISub
	OpIMul
	OpIDiv // SMT-LIB div (euclidean)
	OpIMod // SMT-LIB mod
	OpILt
	OpILe
	OpINeg
	OpInt2BV // to sort width
	OpBV2Nat
)

var opNames = map[Op]string{
	OpNot: "not", OpAnd: "and", OpOr: "or", OpEq: "=", OpIte: "ite",
	OpBVAdd: "bvadd", OpBVSub: "bvsub", OpBVMul: "bvmul", OpBVUDiv: "bvudiv", OpBVURem: "bvurem",
	OpBVSDiv: "bvsdiv", OpBVSRem: "bvsrem", OpBVAnd: "bvand", OpBVOr: "bvor", OpBVXor: "bvxor",
	OpBVNot: "bvnot", OpBVNeg: "bvneg", OpBVShl: "bvshl", OpBVLShr: "bvlshr", OpBVAShr: "bvashr",
	OpBVULt: "bvult", OpBVULe: "bvule", OpBVSLt: "bvslt", OpBVSLe: "bvsle", OpConcat: "concat",
	OpIAdd: "+", OpISub: "-", OpIMul: "*", OpIDiv: "div", OpIMod: "mod", OpILt: "<", OpILe: "<=",
	OpINeg: "-", OpBV2Nat: "bv2nat",
}

type Term struct {
	id   int
	op   Op
	sort Sort
	args []*Term
	cval uint64   // const value for Bool (0/1) and BV
	ival *big.Int // const value for Int
	name string   // var name
	hi   int
	lo   int
}

func (t *Term) IsConst() bool { return t.op == OpConst }

// TermStore hash-conses terms; one per explored path.
type TermStore struct {
	tab   map[string]*Term
	next  int
	vars  []*Term
	varBy map[string]*Term
}

func NewTermStore() *TermStore {
	return &TermStore{tab: make(map[string]*Term), varBy: make(map[string]*Term)}
}

func (ts *TermStore) intern(t *Term) *Term {
	var sb strings.Builder
	fmt.Fprintf(&sb, "%d|%d.%d|", t.op, t.sort.K, t.sort.W)
	switch t.op {
	case OpVar:
		sb.WriteString(t.name)
	case OpConst:
		if t.sort.K == SInt {
			sb.WriteString(t.ival.String())
		} else {
			fmt.Fprintf(&sb, "%d", t.cval)
		}
	case OpExtract:
		fmt.Fprintf(&sb, "%d.%d|", t.hi, t.lo)
	}
	for _, a := range t.args {
		fmt.Fprintf(&sb, "%d,", a.id)
	}
	k := sb.String()
	if o, ok := ts.tab[k]; ok {
		return o
	}
	t.id = ts.next
	ts.next++
	ts.tab[k] = t
	return t
}

func mask(w int) uint64 {
	if w >= 64 {
		return ^uint64(0)
	}
	return (uint64(1) << uint(w)) - 1
}

func signExt(v uint64, w int) int64 {
	if w >= 64 {
		return int64(v)
	}
	if v&(uint64(1)<<uint(w-1)) != 0 {
		return int64(v | ^mask(w))
	}
	return int64(v)
}

func (ts *TermStore) Var(name string, s Sort) *Term {
	if v, ok := ts.varBy[name]; ok {
		if v.sort != s {
			panic(fmt.Sprintf("symbolic variable %q redeclared with different sort", name))
		}
		return v
	}
	v := ts.intern(&Term{op: OpVar, sort: s, name: name})
	ts.varBy[name] = v
	ts.vars = append(ts.vars, v)
	return v
}

func (ts *TermStore) Bool(b bool) *Term {
	var c uint64
	if b {
		c = 1
	}
	return ts.intern(&Term{op: OpConst, sort: sortBool, cval: c})
}

func (ts *TermStore) BV(v uint64, w int) *Term {
	return ts.intern(&Term{op: OpConst, sort: bvSort(w), cval: v & mask(w)})
}

func (ts *TermStore) Int(v *big.Int) *Term {
	return ts.intern(&Term{op: OpConst, sort: sortInt, ival: new(big.Int).Set(v)})
}

func (ts *TermStore) IntI(v int64) *Term { return ts.Int(big.NewInt(v)) }

func isTrue(t *Term) bool  { return t.op == OpConst && t.sort.K == SBool && t.cval == 1 }
func isFalse(t *Term) bool { return t.op == OpConst && t.sort.K == SBool && t.cval == 0 }

func (ts *TermStore) Not(a *Term) *Term {
	if a.op == OpConst {
		return ts.Bool(a.cval == 0)
	}
	if a.op == OpNot {
		return a.args[0]
	}
	return ts.intern(&Term{op: OpNot, sort: sortBool, args: []*Term{a}})
}

func (ts *TermStore) And(a, b *Term) *Term {
	if isFalse(a) || isFalse(b) {
		return ts.Bool(false)
	}
	if isTrue(a) {
		return b
	}
	if isTrue(b) {
		return a
	}
	if a == b {
		return a
	}
	return ts.intern(&Term{op: OpAnd, sort: sortBool, args: []*Term{a, b}})
}

func (ts *TermStore) Or(a, b *Term) *Term {
	if isTrue(a) || isTrue(b) {
		return ts.Bool(true)
	}
	if isFalse(a) {
		return b
	}
	if isFalse(b) {
		return a
	}
	if a == b {
		return a
	}
	return ts.intern(&Term{op: OpOr, sort: sortBool, args: []*Term{a, b}})
}

func (ts *TermStore) Implies(a, b *Term) *Term { return ts.Or(ts.Not(a), b) }

func (ts *TermStore) Eq(a, b *Term) *Term {
	if a.sort != b.sort {
		panic(fmt.Sprintf("Eq: sort mismatch %v vs %v", a.sort, b.sort))
	}
	if a == b {
		return ts.Bool(true)
	}
	if a.op == OpConst && b.op == OpConst {
		if a.sort.K == SInt {
			return ts.Bool(a.ival.Cmp(b.ival) == 0)
		}
		return ts.Bool(a.cval == b.cval)
	}
	if a.sort.K == SBool {
		if isTrue(a) {
			return b
		}
		if isTrue(b) {
			return a
		}
		if isFalse(a) {
			return ts.Not(b)
		}
		if isFalse(b) {
			return ts.Not(a)
		}
	}
	if a.id > b.id {
		a, b = b, a
	}
	return ts.intern(&Term{op: OpEq, sort: sortBool, args: []*Term{a, b}})
}

func (ts *TermStore) Ite(c, a, b *Term) *Term {
	if a.sort != b.sort {
		panic(fmt.Sprintf("Ite: sort mismatch %v vs %v", a.sort, b.sort))
	}
	if isTrue(c) {
		return a
	}
	if isFalse(c) {
		return b
	}
	if a == b {
		return a
	}
	if a.sort.K == SBool {
		if isTrue(a) && isFalse(b) {
			return c
		}
		if isFalse(a) && isTrue(b) {
			return ts.Not(c)
		}
	}
	return ts.intern(&Term{op: OpIte, sort: a.sort, args: []*Term{c, a, b}})
}

// evalBV2 computes a binary bit-vector op on constants.
func evalBV2(op Op, x, y uint64, w int) uint64 {
	m := mask(w)
	x &= m
	y &= m
	switch op {
	case OpBVAdd:
		return (x + y) & m
	case OpBVSub:
		return (x - y) & m
	case OpBVMul:
		return (x * y) & m
	case OpBVUDiv:
		if y == 0 {
			return m
		}
		return x / y
	case OpBVURem:
		if y == 0 {
			return x
		}
		return x % y
	case OpBVSDiv:
		sx, sy := signExt(x, w), signExt(y, w)
		if sy == 0 {
			if sx < 0 {
				return 1
			}
			return m
		}
		if sy == -1 {
			return uint64(-sx) & m
		}
		return uint64(sx/sy) & m
	case OpBVSRem:
		sx, sy := signExt(x, w), signExt(y, w)
		if sy == 0 {
			return x
		}
		if sy == -1 {
			return 0
		}
		return uint64(sx%sy) & m
	case OpBVAnd:
		return x & y
	case OpBVOr:
		return x | y
	case OpBVXor:
		return x ^ y
	case OpBVShl:
		if y >= uint64(w) {
			return 0
		}
		return (x << y) & m
	case OpBVLShr:
		if y >= uint64(w) {
			return 0
		}
		return x >> y
	case OpBVAShr:
		sx := signExt(x, w)
		if y >= uint64(w) {
			if sx < 0 {
				return m
			}
			return 0
		}
		return uint64(sx>>y) & m
	}
	panic("evalBV2: bad op")
}

func evalBVCmp(op Op, x, y uint64, w int) bool {
	m := mask(w)
	x &= m
	y &= m
	switch op {
	case OpBVULt:
		return x < y
	case OpBVULe:
		return x <= y
	case OpBVSLt:
		return signExt(x, w) < signExt(y, w)
	case OpBVSLe:
		return signExt(x, w) <= signExt(y, w)
	}
	panic("evalBVCmp: bad op")
}

func (ts *TermStore) BV2(op Op, a, b *Term) *Term {
	if a.sort != b.sort || a.sort.K != SBV {
		panic(fmt.Sprintf("BV2 %v: sort mismatch %v vs %v", opNames[op], a.sort, b.sort))
	}
	w := a.sort.W
	if a.op == OpConst && b.op == OpConst {
		return ts.BV(evalBV2(op, a.cval, b.cval, w), w)
	}
	// light identities
	switch op {
	case OpBVAdd, OpBVOr, OpBVXor:
		if a.op == OpConst && a.cval == 0 {
			return b
		}
		if b.op == OpConst && b.cval == 0 {
			return a
		}
	case OpBVSub, OpBVShl, OpBVLShr, OpBVAShr:
		if b.op == OpConst && b.cval == 0 {
			return a
		}
	case OpBVMul:
		if a.op == OpConst && a.cval == 1 {
			return b
		}
		if b.op == OpConst && b.cval == 1 {
			return a
		}
		if (a.op == OpConst && a.cval == 0) || (b.op == OpConst && b.cval == 0) {
			return ts.BV(0, w)
		}
	case OpBVAnd:
		if (a.op == OpConst && a.cval == 0) || (b.op == OpConst && b.cval == 0) {
			return ts.BV(0, w)
		}
		if a.op == OpConst && a.cval == mask(w) {
			return b
		}
		if b.op == OpConst && b.cval == mask(w) {
			return a
		}
	}
	return ts.intern(&Term{op: op, sort: a.sort, args: []*Term{a, b}})
}

func (ts *TermStore) BVCmp(op Op, a, b *Term) *Term {
	if a.sort != b.sort || a.sort.K != SBV {
		panic(fmt.Sprintf("BVCmp %v: sort mismatch %v vs %v", opNames[op], a.sort, b.sort))
	}
	if a.op == OpConst && b.op == OpConst {
		return ts.Bool(evalBVCmp(op, a.cval, b.cval, a.sort.W))
	}
	if a == b {
		return ts.Bool(op == OpBVULe || op == OpBVSLe)
	}
	return ts.intern(&Term{op: op, sort: sortBool, args: []*Term{a, b}})
}

func (ts *TermStore) BVNot(a *Term) *Term {
	if a.op == OpConst {
		return ts.BV(^a.cval, a.sort.W)
	}
	return ts.intern(&Term{op: OpBVNot, sort: a.sort, args: []*Term{a}})
}

func (ts *TermStore) BVNeg(a *Term) *Term {
	if a.op == OpConst {
		return ts.BV(-a.cval, a.sort.W)
	}
	return ts.intern(&Term{op: OpBVNeg, sort: a.sort, args: []*Term{a}})
}

func (ts *TermStore) Extract(a *Term, hi, lo int) *Term {
	w := hi - lo + 1
	if a.sort.K != SBV || hi >= a.sort.W || lo < 0 || w <= 0 {
		panic("Extract: bad range")
	}
	if w == a.sort.W {
		return a
	}
	if a.op == OpConst {
		return ts.BV(a.cval>>uint(lo), w)
	}
	// extract of zext/sext of narrower term that lies within the original
	if (a.op == OpZExt || a.op == OpSExt) && lo == 0 && w <= a.args[0].sort.W {
		return ts.Extract(a.args[0], hi, lo)
	}
	if a.op == OpConcat {
		lw := a.args[1].sort.W
		if hi < lw {
			return ts.Extract(a.args[1], hi, lo)
		}
		if lo >= lw {
			return ts.Extract(a.args[0], hi-lw, lo-lw)
		}
	}
	return ts.intern(&Term{op: OpExtract, sort: bvSort(w), args: []*Term{a}, hi: hi, lo: lo})
}

func (ts *TermStore) Concat(a, b *Term) *Term {
	w := a.sort.W + b.sort.W
	if w > 64 {
		panic("Concat: width > 64")
	}
	if a.op == OpConst && b.op == OpConst {
		return ts.BV(a.cval<<uint(b.sort.W)|b.cval, w)
	}
	return ts.intern(&Term{op: OpConcat, sort: bvSort(w), args: []*Term{a, b}})
}

func (ts *TermStore) ZExt(a *Term, w int) *Term {
	if a.sort.W == w {
		return a
	}
	if a.sort.W > w {
		return ts.Extract(a, w-1, 0)
	}
	if a.op == OpConst {
		return ts.BV(a.cval, w)
	}
	return ts.intern(&Term{op: OpZExt, sort: bvSort(w), args: []*Term{a}})
}

func (ts *TermStore) SExt(a *Term, w int) *Term {
	if a.sort.W == w {
		return a
	}
	if a.sort.W > w {
		return ts.Extract(a, w-1, 0)
	}
	if a.op == OpConst {
		return ts.BV(uint64(signExt(a.cval, a.sort.W)), w)
	}
	return ts.intern(&Term{op: OpSExt, sort: bvSort(w), args: []*Term{a}})
}

// ---- Int ----

func (ts *TermStore) I2(op Op, a, b *Term) *Term {
	if a.sort.K != SInt || b.sort.K != SInt {
		panic("I2: non-Int operand")
	}
	if a.op == OpConst && b.op == OpConst {
		r := new(big.Int)
		switch op {
		case OpIAdd:
			return ts.Int(r.Add(a.ival, b.ival))
		case OpISub:
			return ts.Int(r.Sub(a.ival, b.ival))
		case OpIMul:
			return ts.Int(r.Mul(a.ival, b.ival))
		case OpIDiv:
			if b.ival.Sign() != 0 {
				return ts.Int(r.Div(a.ival, b.ival)) // Euclidean
			}
		case OpIMod:
			if b.ival.Sign() != 0 {
				return ts.Int(r.Mod(a.ival, b.ival))
			}
		}
	}
	return ts.intern(&Term{op: op, sort: sortInt, args: []*Term{a, b}})
}

func (ts *TermStore) ICmp(op Op, a, b *Term) *Term {
	if a.op == OpConst && b.op == OpConst {
		c := a.ival.Cmp(b.ival)
		if op == OpILt {
			return ts.Bool(c < 0)
		}
		return ts.Bool(c <= 0)
	}
	return ts.intern(&Term{op: op, sort: sortBool, args: []*Term{a, b}})
}

func (ts *TermStore) INeg(a *Term) *Term {
	if a.op == OpConst {
		return ts.Int(new(big.Int).Neg(a.ival))
	}
	return ts.intern(&Term{op: OpINeg, sort: sortInt, args: []*Term{a}})
}

func (ts *TermStore) Int2BV(a *Term, w int) *Term {
	if a.op == OpConst {
		m := new(big.Int).Lsh(big.NewInt(1), uint(w))
		r := new(big.Int).Mod(a.ival, m)
		return ts.BV(r.Uint64(), w)
	}
	return ts.intern(&Term{op: OpInt2BV, sort: bvSort(w), args: []*Term{a}})
}

func (ts *TermStore) BV2Nat(a *Term) *Term {
	if a.op == OpConst {
		return ts.Int(new(big.Int).SetUint64(a.cval))
	}
	return ts.intern(&Term{op: OpBV2Nat, sort: sortInt, args: []*Term{a}})
}

// BV2IntSigned interprets a as a two's complement signed number.
func (ts *TermStore) BV2IntSigned(a *Term) *Term {
	w := a.sort.W
	n := ts.BV2Nat(a)
	neg := ts.BVCmp(OpBVSLt, a, ts.BV(0, w))
	return ts.Ite(neg, ts.I2(OpISub, n, ts.Int(new(big.Int).Lsh(big.NewInt(1), uint(w)))), n)
}

// ---- evaluation under a model ----

// Model maps variable names to values: uint64 (Bool as 0/1, BV) or *big.Int (Int).
type Model map[string]interface{}

type evalCtx struct {
	m     Model
	cache map[int]interface{}
}

func newEvalCtx(m Model) *evalCtx { return &evalCtx{m: m, cache: make(map[int]interface{})} }

func (e *evalCtx) evalU(t *Term) uint64 {
	return e.eval(t).(uint64)
}

func (e *evalCtx) evalI(t *Term) *big.Int {
	return e.eval(t).(*big.Int)
}

func (e *evalCtx) evalBool(t *Term) bool { return e.evalU(t) != 0 }

func b2u(b bool) uint64 {
	if b {
		return 1
	}
	return 0
}

func (e *evalCtx) eval(t *Term) interface{} {
	if t.op == OpConst {
		if t.sort.K == SInt {
			return t.ival
		}
		return t.cval
	}
	if v, ok := e.cache[t.id]; ok {
		return v
	}
	var r interface{}
	switch t.op {
	case OpVar:
		v, ok := e.m[t.name]
		if !ok {
			if t.sort.K == SInt {
				r = new(big.Int)
			} else {
				r = uint64(0)
			}
		} else {
			switch t.sort.K {
			case SInt:
				switch v := v.(type) {
				case *big.Int:
					r = v
				case uint64:
					r = new(big.Int).SetUint64(v)
				}
			default:
				switch v := v.(type) {
				case uint64:
					r = v & mask(maxi(t.sort.W, 1))
				case *big.Int:
					r = v.Uint64() & mask(maxi(t.sort.W, 1))
				}
			}
		}
	case OpNot:
		r = b2u(!e.evalBool(t.args[0]))
	case OpAnd:
		r = b2u(e.evalBool(t.args[0]) && e.evalBool(t.args[1]))
	case OpOr:
		r = b2u(e.evalBool(t.args[0]) || e.evalBool(t.args[1]))
	case OpEq:
		if t.args[0].sort.K == SInt {
			r = b2u(e.evalI(t.args[0]).Cmp(e.evalI(t.args[1])) == 0)
		} else {
			r = b2u(e.evalU(t.args[0]) == e.evalU(t.args[1]))
		}
	case OpIte:
		if e.evalBool(t.args[0]) {
			r = e.eval(t.args[1])
		} else {
			r = e.eval(t.args[2])
		}
	case OpBVAdd, OpBVSub, OpBVMul, OpBVUDiv, OpBVURem, OpBVSDiv, OpBVSRem, OpBVAnd, OpBVOr, OpBVXor, OpBVShl, OpBVLShr, OpBVAShr:
		r = evalBV2(t.op, e.evalU(t.args[0]), e.evalU(t.args[1]), t.sort.W)
	case OpBVULt, OpBVULe, OpBVSLt, OpBVSLe:
		r = b2u(evalBVCmp(t.op, e.evalU(t.args[0]), e.evalU(t.args[1]), t.args[0].sort.W))
	case OpBVNot:
		r = ^e.evalU(t.args[0]) & mask(t.sort.W)
	case OpBVNeg:
		r = -e.evalU(t.args[0]) & mask(t.sort.W)
	case OpConcat:
		r = (e.evalU(t.args[0])<<uint(t.args[1].sort.W) | e.evalU(t.args[1])) & mask(t.sort.W)
	case OpExtract:
		r = (e.evalU(t.args[0]) >> uint(t.lo)) & mask(t.sort.W)
	case OpZExt:
		r = e.evalU(t.args[0])
	case OpSExt:
		r = uint64(signExt(e.evalU(t.args[0]), t.args[0].sort.W)) & mask(t.sort.W)
	case OpIAdd:
		r = new(big.Int).Add(e.evalI(t.args[0]), e.evalI(t.args[1]))
	case OpISub:
		r = new(big.Int).Sub(e.evalI(t.args[0]), e.evalI(t.args[1]))
	case OpIMul:
		r = new(big.Int).Mul(e.evalI(t.args[0]), e.evalI(t.args[1]))
	case OpIDiv:
		d := e.evalI(t.args[1])
		if d.Sign() == 0 {
			r = new(big.Int)
		} else {
			r = new(big.Int).Div(e.evalI(t.args[0]), d)
		}
	case OpIMod:
		d := e.evalI(t.args[1])
		if d.Sign() == 0 {
			r = new(big.Int).Set(e.evalI(t.args[0]))
		} else {
			r = new(big.Int).Mod(e.evalI(t.args[0]), d)
		}
	case OpILt:
		r = b2u(e.evalI(t.args[0]).Cmp(e.evalI(t.args[1])) < 0)
	case OpILe:
		r = b2u(e.evalI(t.args[0]).Cmp(e.evalI(t.args[1])) <= 0)
	case OpINeg:
		r = new(big.Int).Neg(e.evalI(t.args[0]))
	case OpInt2BV:
		m := new(big.Int).Lsh(big.NewInt(1), uint(t.sort.W))
		r = new(big.Int).Mod(e.evalI(t.args[0]), m).Uint64()
	case OpBV2Nat:
		r = new(big.Int).SetUint64(e.evalU(t.args[0]))
	default:
		panic(fmt.Sprintf("eval: unhandled op %d", t.op))
	}
	e.cache[t.id] = r
	return r
}

func maxi(a, b int) int {
	if a > b {
		return a
	}
	return b
}

// ---- SMT-LIB printing ----

func smtName(s string) string {
	// quote with |...| ; names never contain '|' or '\\'
	s = strings.ReplaceAll(s, "|", "_")
	s = strings.ReplaceAll(s, "\\", "_")
	return "|" + s + "|"
}

func constSMT(t *Term) string {
	switch t.sort.K {
	case SBool:
		if t.cval != 0 {
			return "true"
		}
		return "false"
	case SBV:
		if t.sort.W%4 == 0 {
			return fmt.Sprintf("#x%0*x", t.sort.W/4, t.cval)
		}
		return fmt.Sprintf("#b%0*b", t.sort.W, t.cval)
	default:
		if t.ival.Sign() < 0 {
			return "(- " + new(big.Int).Neg(t.ival).String() + ")"
		}
		return t.ival.String()
	}
}

// ref returns the SMT-LIB reference of an already defined term.
func ref(t *Term) string {
	switch t.op {
	case OpConst:
		return constSMT(t)
	case OpVar:
		return smtName(t.name)
	}
	return fmt.Sprintf("t%d", t.id)
}

// body renders one level of t using refs for children.
func body(t *Term) string {
	var sb strings.Builder
	switch t.op {
	case OpExtract:
		fmt.Fprintf(&sb, "((_ extract %d %d) %s)", t.hi, t.lo, ref(t.args[0]))
	case OpZExt:
		fmt.Fprintf(&sb, "((_ zero_extend %d) %s)", t.sort.W-t.args[0].sort.W, ref(t.args[0]))
	case OpSExt:
		fmt.Fprintf(&sb, "((_ sign_extend %d) %s)", t.sort.W-t.args[0].sort.W, ref(t.args[0]))
	case OpInt2BV:
		fmt.Fprintf(&sb, "((_ int2bv %d) %s)", t.sort.W, ref(t.args[0]))
	default:
		sb.WriteString("(")
		sb.WriteString(opNames[t.op])
		for _, a := range t.args {
			sb.WriteString(" ")
			sb.WriteString(ref(a))
		}
		sb.WriteString(")")
	}
	return sb.String()
}
