package interp

// Goroutines and channels under a deterministic cooperative scheduler.
//
// Every interpreted goroutine is a real Go goroutine, but exactly one runs at
// any time (baton passing).  The running goroutine gives up the baton only at
// blocking operations (channel send/receive/select, mutex, WaitGroup, Cond,
// Gosched/Sleep) and when it ends; the next goroutine is chosen in FIFO order
// among those able to proceed.  Pre-emptive interleavings are NOT explored.
// If the main goroutine cannot proceed and nothing else can run, the path is
// reported as blocked (deadlock).

import (
	"fmt"
)

type gor struct {
	id     int
	resume chan struct{}
	cond   func() bool // nil = runnable
	done   bool
	fn     value
	args   []value
	isMain bool
	start  bool // started?
}

type sendItem struct {
	v     value
	taken bool
	g     *gor
}

type chanT struct {
	buf         []value
	cap         int
	closed      bool
	sendq       []*sendItem
	recvWaiting int
}

type blockedError struct{ what string }

func (b blockedError) Error() string { return "blocked: " + b.what }

type goroutineKill struct{}

type sched struct {
	gors       []*gor
	cur        *gor
	nextID     int
	crossPanic interface{}
	killed     bool
}

func (i *interpreter) initSched() {
	main := &gor{id: 0, resume: make(chan struct{}, 1), isMain: true, start: true}
	i.sch = &sched{gors: []*gor{main}, cur: main, nextID: 1}
}

// spawn registers a new goroutine (it starts running when first scheduled).
func (i *interpreter) spawn(fn value, args []value) {
	s := i.sch
	g := &gor{id: s.nextID, resume: make(chan struct{}, 1), fn: fn, args: args}
	s.nextID++
	s.gors = append(s.gors, g)
}

func (g *gor) canRun() bool {
	if g.done {
		return false
	}
	return g.cond == nil || g.cond()
}

// pickNext chooses the next goroutine able to run, FIFO after the current one.
func (s *sched) pickNext(exclude *gor) *gor {
	n := len(s.gors)
	startIdx := 0
	for k, g := range s.gors {
		if g == s.cur {
			startIdx = k + 1
			break
		}
	}
	for k := 0; k < n; k++ {
		g := s.gors[(startIdx+k)%n]
		if g == exclude {
			continue
		}
		if g.canRun() {
			return g
		}
	}
	return nil
}

// switchTo hands the baton to g and parks the current goroutine until resumed.
func (i *interpreter) switchTo(g *gor) {
	s := i.sch
	self := s.cur
	s.cur = g
	if !g.start {
		g.start = true
		go i.gorMain(g)
	} else {
		g.resume <- struct{}{}
	}
	if self.done {
		return
	}
	<-self.resume
	s.cur = self
	if s.killed && !self.isMain {
		panic(goroutineKill{})
	}
	if self.isMain && s.crossPanic != nil {
		p := s.crossPanic
		s.crossPanic = nil
		panic(p)
	}
}

func (i *interpreter) gorMain(g *gor) {
	s := i.sch
	defer func() {
		r := recover()
		g.done = true
		if _, ok := r.(goroutineKill); ok || s.killed {
			return
		}
		if r != nil {
			// propagate to main
			if tp, ok := r.(targetPanic); ok {
				_ = tp
			}
			s.crossPanic = r
			i.switchTo(s.gors[0])
			return
		}
		// pick someone to continue: a runnable goroutine, else main (which will detect deadlock)
		next := s.pickNext(g)
		if next == nil {
			next = s.gors[0]
		}
		i.switchTo(next)
	}()
	call(i, nil, 0, g.fn, g.args)
}

// yieldUntil blocks the current goroutine until cond holds.
func (i *interpreter) yieldUntil(cond func() bool, what string) {
	s := i.sch
	self := s.cur
	for !cond() {
		self.cond = cond
		next := s.pickNext(self)
		if next == nil {
			self.cond = nil
			if self.isMain {
				panic(blockedError{what})
			}
			// a helper goroutine is stuck forever: report through main
			s.crossPanic = blockedError{what + " (in goroutine)"}
			i.switchTo(s.gors[0])
			return
		}
		i.switchTo(next)
	}
	self.cond = nil
}

// yield lets other runnable goroutines run once (Gosched).
func (i *interpreter) yield() {
	s := i.sch
	self := s.cur
	next := s.pickNext(self)
	if next == nil {
		return
	}
	i.switchTo(next)
}

// drain runs goroutines until none can make progress (end of harness).
func (i *interpreter) drain() {
	s := i.sch
	for {
		next := s.pickNext(s.cur)
		if next == nil {
			return
		}
		i.switchTo(next)
	}
}

// killAll unwinds parked goroutines at the end of a path.
func (i *interpreter) killAll() {
	s := i.sch
	if s == nil {
		return
	}
	s.killed = true
	for _, g := range s.gors {
		if g.isMain || g.done || !g.start {
			continue
		}
		g.resume <- struct{}{}
	}
}

// runPending lets other goroutines run; reports whether any could.
func (i *interpreter) runPending() bool {
	s := i.sch
	if s.pickNext(s.cur) == nil {
		return false
	}
	i.yield()
	return true
}

// ---- channel operations ----

func (i *interpreter) chanSend(c *chanT, v value) {
	if c == nil {
		i.yieldUntil(func() bool { return false }, "send on nil channel")
		return
	}
	if c.closed {
		panic(targetPanic{v: rtErr("send on closed channel")})
	}
	v = copyVal(v)
	if c.cap > 0 {
		i.yieldUntil(func() bool { return c.closed || len(c.buf) < c.cap }, fmt.Sprintf("send on full channel (cap %d)", c.cap))
		if c.closed {
			panic(targetPanic{v: rtErr("send on closed channel")})
		}
		c.buf = append(c.buf, v)
		return
	}
	it := &sendItem{v: v, g: i.sch.cur}
	c.sendq = append(c.sendq, it)
	i.yieldUntil(func() bool { return it.taken || c.closed }, "send on unbuffered channel with no receiver")
	if !it.taken {
		panic(targetPanic{v: rtErr("send on closed channel")})
	}
}

func (c *chanT) canRecv() bool {
	return c != nil && (len(c.buf) > 0 || len(c.sendq) > 0 || c.closed)
}

func (c *chanT) take() (value, bool) {
	if len(c.buf) > 0 {
		v := c.buf[0]
		c.buf = c.buf[1:]
		return v, true
	}
	if len(c.sendq) > 0 {
		it := c.sendq[0]
		c.sendq = c.sendq[1:]
		it.taken = true
		return it.v, true
	}
	return nil, false // closed
}

func (i *interpreter) chanRecv(c *chanT) (value, bool) {
	if c == nil {
		i.yieldUntil(func() bool { return false }, "receive on nil channel")
		return nil, false
	}
	if !c.canRecv() {
		c.recvWaiting++
		i.yieldUntil(c.canRecv, "receive on empty channel")
		c.recvWaiting--
	}
	return c.take()
}

func (i *interpreter) chanClose(c *chanT) {
	if c == nil {
		panic(targetPanic{v: rtErr("close of nil channel")})
	}
	if c.closed {
		panic(targetPanic{v: rtErr("close of closed channel")})
	}
	c.closed = true
}

func (c *chanT) canSend() bool {
	if c == nil {
		return false
	}
	return c.closed || len(c.buf) < c.cap || (c.cap == 0 && c.recvWaiting > 0)
}
