package interp

// Channels and goroutines under a single logical thread.  A goroutine started
// with `go` is queued and run to completion when the running goroutine would
// otherwise block (or at the end of the harness).  A goroutine that itself
// blocks with nothing else runnable is a reported deadlock.

import "fmt"

type chanT struct {
	buf    []value
	cap    int
	closed bool
}

type pendingGo struct {
	fn   value
	args []value
}

type blockedError struct{ what string }

func (b blockedError) Error() string { return "blocked: " + b.what }

// runPending runs one queued goroutine; it reports whether one was run.
func (i *interpreter) runPending() bool {
	if len(i.pending) == 0 {
		return false
	}
	g := i.pending[0]
	i.pending = i.pending[1:]
	i.goDepth++
	defer func() { i.goDepth-- }()
	func() {
		defer func() {
			if r := recover(); r != nil {
				if tp, ok := r.(targetPanic); ok {
					// a panic in a goroutine kills the program
					panic(targetPanic{v: tp.v})
				}
				panic(r)
			}
		}()
		call(i, nil, 0, g.fn, g.args)
	}()
	return true
}

func (i *interpreter) chanSend(c *chanT, v value) {
	if c == nil {
		panic(blockedError{"send on nil channel"})
	}
	for {
		if c.closed {
			panic(targetPanic{v: rtErr("send on closed channel")})
		}
		if len(c.buf) < c.cap || (c.cap == 0 && len(c.buf) == 0 && i.goDepth > 0) {
			// An unbuffered send from a helper goroutine is modelled as a
			// rendezvous slot of size one picked up by the receiver.
			c.buf = append(c.buf, copyVal(v))
			return
		}
		if c.cap == 0 && len(c.buf) == 0 {
			// main goroutine, unbuffered: deposit and let a pending goroutine take it
			c.buf = append(c.buf, copyVal(v))
			for len(c.buf) > 0 {
				if !i.runPending() {
					panic(blockedError{"unbuffered send with no receiver"})
				}
			}
			return
		}
		if !i.runPending() {
			panic(blockedError{fmt.Sprintf("send on full channel (cap %d)", c.cap)})
		}
	}
}

func (i *interpreter) chanRecv(c *chanT) (value, bool) {
	if c == nil {
		panic(blockedError{"receive on nil channel"})
	}
	for {
		if len(c.buf) > 0 {
			v := c.buf[0]
			c.buf = c.buf[1:]
			return v, true
		}
		if c.closed {
			return nil, false
		}
		if !i.runPending() {
			panic(blockedError{"receive on empty channel"})
		}
	}
}

func (i *interpreter) chanClose(c *chanT) {
	if c == nil {
		panic(targetPanic{v: rtErr("close of nil channel")})
	}
	if c.closed {
		panic(targetPanic{v: rtErr("close of closed channel")})
	}
	c.closed = true
}

// canRecv/canSend report readiness without blocking.
func (c *chanT) canRecv() bool { return c != nil && (len(c.buf) > 0 || c.closed) }
func (c *chanT) canSend() bool {
	return c != nil && (c.closed || len(c.buf) < c.cap)
}
