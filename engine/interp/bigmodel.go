package interp

// Symbolic model of math/big.Int: a *big.Int object may carry an SMT Int term
// (unbounded mathematical integer) in a side table.  Methods whose operands
// are all concrete fall through to the real (pure-Go) implementation; methods
// with a symbolic operand are computed on terms.  Any math/big method that is
// not modelled and receives a symbolic operand is an engine error (never a
// silent wrong value).

import (
	"fmt"
	"go/types"
	"math/big"
	"strings"

	"golang.org/x/tools/go/ssa"
)

// fallthroughExt is returned by an intrinsic to request interpretation of the real body.
type fallthroughExtT struct{}

var fallthroughExt = fallthroughExtT{}

func (i *interpreter) bigTerm(p *value) (*Term, bool) {
	if p == nil {
		return nil, false
	}
	t, ok := i.bigSym[p]
	return t, ok
}

// bigOperand returns the Int term of a *big.Int operand (symbolic or concrete).
func (i *interpreter) bigOperand(v value) *Term {
	p := v.(*value)
	if p == nil {
		rtPanic("invalid memory address or nil pointer dereference (nil *big.Int)")
	}
	if t, ok := i.bigSym[p]; ok {
		return t
	}
	return i.ps.ts.Int(i.bigConcrete(p))
}

// bigConcrete reads the value of a concrete big.Int object {neg bool, abs nat}.
func (i *interpreter) bigConcrete(p *value) *big.Int {
	st := (*p).(structure)
	neg := st[0].(bool)
	words := st[1].([]value)
	r := new(big.Int)
	for k := len(words) - 1; k >= 0; k-- {
		w, ok := words[k].(uint)
		if !ok {
			panic(engineError("big.Int with symbolic words (not created through the model)"))
		}
		r.Lsh(r, 64)
		r.Or(r, new(big.Int).SetUint64(uint64(w)))
	}
	if neg {
		r.Neg(r)
	}
	return r
}

// bigSet makes object z hold term t.
func (i *interpreter) bigSet(z *value, t *Term) {
	if t.op == OpConst {
		// store concretely
		delete(i.bigSym, z)
		v := t.ival
		abs := new(big.Int).Abs(v)
		var words []value
		for _, w := range abs.Bits() {
			words = append(words, uint(w))
		}
		st := (*z).(structure)
		st[0] = v.Sign() < 0
		st[1] = words
		return
	}
	st := (*z).(structure)
	st[0] = false
	st[1] = []value(nil)
	i.bigSym[z] = t
}

func (i *interpreter) anyBigSym(args ...value) bool {
	for _, a := range args {
		if p, ok := a.(*value); ok && p != nil {
			if _, ok := i.bigSym[p]; ok {
				return true
			}
		}
	}
	return false
}

func (i *interpreter) newBig(t *Term) *value {
	v := value(structure{false, []value(nil)})
	p := &v
	i.bigSet(p, t)
	return p
}

// truncated division / remainder (Go's Quo/Rem) from SMT-LIB's euclidean div/mod.
func (ps *pathState) intQuo(x, y *Term) *Term {
	ts := ps.ts
	zero := ts.IntI(0)
	q := ts.I2(OpIDiv, x, y) // floor for y>0, ceil for y<0 such that 0<=r<|y|
	r := ts.I2(OpIMod, x, y)
	// euclidean: x = q*y + r, 0 <= r < |y|.  Truncated quotient differs when x<0 and r != 0.
	adj := ts.And(ts.ICmp(OpILt, x, zero), ts.Not(ts.Eq(r, zero)))
	ypos := ts.ICmp(OpILt, zero, y)
	return ts.Ite(adj, ts.Ite(ypos, ts.I2(OpIAdd, q, ts.IntI(1)), ts.I2(OpISub, q, ts.IntI(1))), q)
}

func (ps *pathState) intRem(x, y *Term) *Term {
	ts := ps.ts
	return ts.I2(OpISub, x, ts.I2(OpIMul, ps.intQuo(x, y), y))
}

func (ps *pathState) intFromScalar(v value) *Term {
	switch v := v.(type) {
	case *sym:
		if kindSigned(v.k) {
			return ps.ts.BV2IntSigned(v.t)
		}
		return ps.ts.BV2Nat(v.t)
	}
	if k, _ := concreteKind(v); kindSigned(k) {
		return ps.ts.IntI(asInt64(v))
	}
	return ps.ts.Int(new(big.Int).SetUint64(asUint64Any(v)))
}

func init() {
	bin := func(f func(ps *pathState, x, y *Term) *Term, divLike bool) externalFn {
		return func(fr *frame, a []value) value {
			i := fr.i
			if !i.anyBigSym(a[1], a[2]) {
				return fallthroughExt
			}
			x, y := i.bigOperand(a[1]), i.bigOperand(a[2])
			if divLike {
				if i.ps.decide(i.ps.ts.Eq(y, i.ps.ts.IntI(0))) {
					panic(targetPanic{v: rtErr("division by zero")})
				}
			}
			i.bigSet(a[0].(*value), f(i.ps, x, y))
			return a[0]
		}
	}
	un := func(f func(ps *pathState, x *Term) *Term) externalFn {
		return func(fr *frame, a []value) value {
			i := fr.i
			if !i.anyBigSym(a[1]) {
				if i.anyBigSym(a[0]) {
					// overwriting a symbolic receiver with a concrete value: drop the term first
					delete(i.bigSym, a[0].(*value))
				}
				return fallthroughExt
			}
			i.bigSet(a[0].(*value), f(i.ps, i.bigOperand(a[1])))
			return a[0]
		}
	}
	for k, v := range map[string]externalFn{
		"(*math/big.Int).Add": bin(func(ps *pathState, x, y *Term) *Term { return ps.ts.I2(OpIAdd, x, y) }, false),
		"(*math/big.Int).Sub": bin(func(ps *pathState, x, y *Term) *Term { return ps.ts.I2(OpISub, x, y) }, false),
		"(*math/big.Int).Mul": bin(func(ps *pathState, x, y *Term) *Term { return ps.ts.I2(OpIMul, x, y) }, false),
		"(*math/big.Int).Div": bin(func(ps *pathState, x, y *Term) *Term { return ps.ts.I2(OpIDiv, x, y) }, true),
		"(*math/big.Int).Mod": bin(func(ps *pathState, x, y *Term) *Term { return ps.ts.I2(OpIMod, x, y) }, true),
		"(*math/big.Int).Quo": bin(func(ps *pathState, x, y *Term) *Term { return ps.intQuo(x, y) }, true),
		"(*math/big.Int).Rem": bin(func(ps *pathState, x, y *Term) *Term { return ps.intRem(x, y) }, true),
		"(*math/big.Int).Set": un(func(ps *pathState, x *Term) *Term { return x }),
		"(*math/big.Int).Neg": un(func(ps *pathState, x *Term) *Term { return ps.ts.INeg(x) }),
		"(*math/big.Int).Abs": un(func(ps *pathState, x *Term) *Term {
			return ps.ts.Ite(ps.ts.ICmp(OpILt, x, ps.ts.IntI(0)), ps.ts.INeg(x), x)
		}),
		"(*math/big.Int).SetInt64": func(fr *frame, a []value) value {
			i := fr.i
			if _, ok := a[1].(*sym); !ok {
				delete(i.bigSym, a[0].(*value))
				return fallthroughExt
			}
			i.bigSet(a[0].(*value), i.ps.intFromScalar(a[1]))
			return a[0]
		},
		"(*math/big.Int).SetUint64": func(fr *frame, a []value) value {
			i := fr.i
			if _, ok := a[1].(*sym); !ok {
				delete(i.bigSym, a[0].(*value))
				return fallthroughExt
			}
			i.bigSet(a[0].(*value), i.ps.intFromScalar(a[1]))
			return a[0]
		},
		"math/big.NewInt": func(fr *frame, a []value) value {
			if _, ok := a[0].(*sym); !ok {
				return fallthroughExt
			}
			return fr.i.newBig(fr.i.ps.intFromScalar(a[0]))
		},
		"(*math/big.Int).Cmp": func(fr *frame, a []value) value {
			i := fr.i
			if !i.anyBigSym(a[0], a[1]) {
				return fallthroughExt
			}
			x, y := i.bigOperand(a[0]), i.bigOperand(a[1])
			if i.ps.decide(i.ps.ts.ICmp(OpILt, x, y)) {
				return -1
			}
			if i.ps.decide(i.ps.ts.Eq(x, y)) {
				return 0
			}
			return 1
		},
		"(*math/big.Int).CmpAbs": func(fr *frame, a []value) value {
			i := fr.i
			if !i.anyBigSym(a[0], a[1]) {
				return fallthroughExt
			}
			abs := func(x *Term) *Term {
				return i.ps.ts.Ite(i.ps.ts.ICmp(OpILt, x, i.ps.ts.IntI(0)), i.ps.ts.INeg(x), x)
			}
			x, y := abs(i.bigOperand(a[0])), abs(i.bigOperand(a[1]))
			if i.ps.decide(i.ps.ts.ICmp(OpILt, x, y)) {
				return -1
			}
			if i.ps.decide(i.ps.ts.Eq(x, y)) {
				return 0
			}
			return 1
		},
		"(*math/big.Int).Sign": func(fr *frame, a []value) value {
			i := fr.i
			if !i.anyBigSym(a[0]) {
				return fallthroughExt
			}
			x := i.bigOperand(a[0])
			zero := i.ps.ts.IntI(0)
			if i.ps.decide(i.ps.ts.ICmp(OpILt, x, zero)) {
				return -1
			}
			if i.ps.decide(i.ps.ts.Eq(x, zero)) {
				return 0
			}
			return 1
		},
		"(*math/big.Int).Int64": func(fr *frame, a []value) value {
			i := fr.i
			if !i.anyBigSym(a[0]) {
				return fallthroughExt
			}
			return mk(i.ps.ts.Int2BV(i.bigOperand(a[0]), 64), types.Int64)
		},
		"(*math/big.Int).Uint64": func(fr *frame, a []value) value {
			i := fr.i
			if !i.anyBigSym(a[0]) {
				return fallthroughExt
			}
			return mk(i.ps.ts.Int2BV(i.bigOperand(a[0]), 64), types.Uint64)
		},
		// BitLen of a symbolic integer: exact for |x| < 2^192 (an ite chain over
		// the powers of two), 193 beyond (stated bound of the big.Int model).
		"(*math/big.Int).BitLen": func(fr *frame, a []value) value {
			i := fr.i
			if !i.anyBigSym(a[0]) {
				return fallthroughExt
			}
			ts := i.ps.ts
			x := i.bigOperand(a[0])
			abs := ts.Ite(ts.ICmp(OpILt, x, ts.IntI(0)), ts.INeg(x), x)
			const maxBits = 192
			r := ts.BV(maxBits+1, 64)
			for k := maxBits; k >= 0; k-- {
				r = ts.Ite(ts.ICmp(OpILt, abs, ts.Int(new(big.Int).Lsh(big.NewInt(1), uint(k)))), ts.BV(uint64(k), 64), r)
			}
			return mk(r, types.Int)
		},
		"(*math/big.Int).IsInt64": func(fr *frame, a []value) value {
			i := fr.i
			if !i.anyBigSym(a[0]) {
				return fallthroughExt
			}
			x := i.bigOperand(a[0])
			lo := i.ps.ts.Int(new(big.Int).Neg(new(big.Int).Lsh(big.NewInt(1), 63)))
			hi := i.ps.ts.Int(new(big.Int).Lsh(big.NewInt(1), 63))
			return mkBool(i.ps.ts.And(i.ps.ts.ICmp(OpILe, lo, x), i.ps.ts.ICmp(OpILt, x, hi)))
		},
		"(*math/big.Int).IsUint64": func(fr *frame, a []value) value {
			i := fr.i
			if !i.anyBigSym(a[0]) {
				return fallthroughExt
			}
			x := i.bigOperand(a[0])
			hi := i.ps.ts.Int(new(big.Int).Lsh(big.NewInt(1), 64))
			return mkBool(i.ps.ts.And(i.ps.ts.ICmp(OpILe, i.ps.ts.IntI(0), x), i.ps.ts.ICmp(OpILt, x, hi)))
		},
		"(*math/big.Int).String": func(fr *frame, a []value) value {
			if !fr.i.anyBigSym(a[0]) {
				return fallthroughExt
			}
			return "<symbolic big.Int>"
		},
		"(*math/big.Int).Text": func(fr *frame, a []value) value {
			if !fr.i.anyBigSym(a[0]) {
				return fallthroughExt
			}
			return "<symbolic big.Int>"
		},
		"(*math/big.Int).Format": func(fr *frame, a []value) value {
			if !fr.i.anyBigSym(a[0]) {
				return fallthroughExt
			}
			return nil
		},
		symPkg + "BigInt": func(fr *frame, a []value) value {
			ps := fr.i.ps
			name := ps.uniqueName(strOf(a[0]))
			t := ps.ts.Var(name, sortInt)
			ps.inputs = append(ps.inputs, InputRec{Name: name, Kind: "bigint", terms: []*Term{t}})
			if ps.cfg.randomInputs {
				if _, ok := ps.model[name]; !ok {
					r := randomBits(ps.cfg.RandomSeed, name, 64)
					v := new(big.Int).SetUint64(r)
					if r%5 == 0 {
						v.Lsh(v, 70) // beyond 64 bits
					}
					if r%7 == 3 {
						v.Neg(v)
					}
					ps.model[name] = v
				}
			}
			if ps.cfg.ConcreteOnly {
				return fr.i.newBig(ps.ts.Int(ps.ev.evalI(t)))
			}
			return fr.i.newBig(t)
		},
	} {
		externals[k] = v
	}
}

// bigGuard rejects unmodelled math/big functions applied to symbolic operands.
func (i *interpreter) bigGuard(fn *ssa.Function, args []value) {
	if len(i.bigSym) == 0 {
		return
	}
	name := fn.String()
	if !strings.HasPrefix(name, "(*math/big.Int).") && !strings.HasPrefix(name, "math/big.") {
		return
	}
	if i.anyBigSym(args...) {
		panic(engineError(fmt.Sprintf("math/big function %s applied to a symbolic big.Int is not modelled", name)))
	}
}
