package interp

// Model of time.Time (DESIGN §4.5).
//
// The real representation splits an instant into seconds and nanoseconds, so
// Add/Sub/Until on a symbolic instant divide and multiply by 10^9 — queries no
// available solver answers.  Under the engine a time.Time is therefore
//
//	{wall: 0, ext: nanoseconds since the Unix epoch + 2^62, loc: nil}
//
// (so the zero struct is still the zero Time, and every instant within ±146
// years of 1970 is representable), and every function of package time that
// touches a Time is an intrinsic over that representation.  Monotonic clock
// readings, locations (everything is UTC) and the saturation of Sub at ±292
// years are outside the model.  Functions of package time with a Time in
// their signature that are not modelled are engine errors, never silently
// interpreted over the wrong representation.

import (
	"go/token"
	"go/types"
	"time"

	"golang.org/x/tools/go/ssa"
)

const timeBias = int64(1) << 62

var tInt64 = types.Typ[types.Int64]

func tmMake(ext value) value { return structure{uint64(0), ext, (*value)(nil)} }

func tmExt(v value) value {
	if p, ok := v.(*value); ok { // pointer receiver
		v = *p
	}
	return v.(structure)[1]
}

func (ps *pathState) i64(op token.Token, x, y value) value { return ps.binop(op, tInt64, x, y) }

// tmNative converts a concrete model instant to a real time.Time (UTC).
func tmNative(v value) (time.Time, bool) {
	e := tmExt(v)
	if isSym(e) {
		return time.Time{}, false
	}
	x := asInt64(e)
	if x == 0 {
		return time.Time{}, true
	}
	return time.Unix(0, x-timeBias).UTC(), true
}

func tmFromNative(t time.Time) value {
	if t.IsZero() {
		return tmMake(int64(0))
	}
	return tmMake(t.UnixNano() + timeBias)
}

var timeModelled = map[string]bool{}

func init() {
	nowExt := func(fr *frame) value {
		if ext := externals["time.Now"]; ext != nil {
			return tmExt(ext(fr, nil))
		}
		return int64(0)
	}
	div := func(k int64) func(fr *frame, a []value) value {
		return func(fr *frame, a []value) value {
			ps := fr.i.ps
			return ps.i64(token.QUO, ps.i64(token.SUB, tmExt(a[0]), timeBias), k)
		}
	}
	cmp := func(op token.Token) func(fr *frame, a []value) value {
		return func(fr *frame, a []value) value { return fr.i.ps.i64(op, tmExt(a[0]), tmExt(a[1])) }
	}
	ident := func(fr *frame, a []value) value { return tmMake(tmExt(a[0])) }
	native := func(name string, f func(t time.Time, a []value) value) func(fr *frame, a []value) value {
		return func(fr *frame, a []value) value {
			t, ok := tmNative(a[0])
			if !ok {
				panic(engineError("time model: " + name + " on a symbolic instant is not supported"))
			}
			return f(t, a)
		}
	}
	m := map[string]externalFn{
		"time.Now": func(fr *frame, a []value) value { return tmMake(timeBias + int64(1_700_000_000_000_000_000)) },
		"time.Unix": func(fr *frame, a []value) value {
			ps := fr.i.ps
			return tmMake(ps.i64(token.ADD, ps.i64(token.ADD, ps.i64(token.MUL, a[0], int64(1e9)), a[1]), timeBias))
		},
		"time.UnixMilli": func(fr *frame, a []value) value {
			ps := fr.i.ps
			return tmMake(ps.i64(token.ADD, ps.i64(token.MUL, a[0], int64(1e6)), timeBias))
		},
		"time.UnixMicro": func(fr *frame, a []value) value {
			ps := fr.i.ps
			return tmMake(ps.i64(token.ADD, ps.i64(token.MUL, a[0], int64(1e3)), timeBias))
		},
		"time.Since": func(fr *frame, a []value) value { return fr.i.ps.i64(token.SUB, nowExt(fr), tmExt(a[0])) },
		"time.Until": func(fr *frame, a []value) value { return fr.i.ps.i64(token.SUB, tmExt(a[0]), nowExt(fr)) },
		"time.Date": func(fr *frame, a []value) value {
			for _, x := range a[:7] {
				if isSym(x) {
					panic(engineError("time model: time.Date with symbolic arguments is not supported"))
				}
			}
			return tmFromNative(time.Date(int(asInt64(a[0])), time.Month(asInt64(a[1])), int(asInt64(a[2])), int(asInt64(a[3])),
				int(asInt64(a[4])), int(asInt64(a[5])), int(asInt64(a[6])), time.UTC))
		},
		"(time.Time).Add": func(fr *frame, a []value) value { return tmMake(fr.i.ps.i64(token.ADD, tmExt(a[0]), a[1])) },
		"(time.Time).Sub": func(fr *frame, a []value) value { return fr.i.ps.i64(token.SUB, tmExt(a[0]), tmExt(a[1])) },
		"(time.Time).After":  cmp(token.GTR),
		"(time.Time).Before": cmp(token.LSS),
		"(time.Time).Equal":  cmp(token.EQL),
		"(time.Time).Compare": func(fr *frame, a []value) value {
			ps := fr.i.ps
			lt := ps.lift(ps.i64(token.LSS, tmExt(a[0]), tmExt(a[1])))
			gt := ps.lift(ps.i64(token.GTR, tmExt(a[0]), tmExt(a[1])))
			return ps.iteValue(lt, int(-1), ps.iteValue(gt, int(1), int(0)))
		},
		"(time.Time).IsZero":    func(fr *frame, a []value) value { return fr.i.ps.i64(token.EQL, tmExt(a[0]), int64(0)) },
		"(time.Time).UnixNano":  func(fr *frame, a []value) value { return fr.i.ps.i64(token.SUB, tmExt(a[0]), timeBias) },
		"(time.Time).UnixMicro": div(1e3),
		"(time.Time).UnixMilli": div(1e6),
		"(time.Time).Unix":      div(1e9),
		"(time.Time).UTC":       ident,
		"(time.Time).Local":     ident,
		"(time.Time).In":        ident,
		"(time.Time).Round": func(fr *frame, a []value) value {
			if isSym(a[1]) || asInt64(a[1]) != 0 {
				panic(engineError("time model: Round(d) with d != 0 is not supported"))
			}
			return tmMake(tmExt(a[0]))
		},
		"(time.Time).Format": native("Format", func(t time.Time, a []value) value { return t.Format(a[1].(string)) }),
		"(time.Time).String": func(fr *frame, a []value) value {
			if t, ok := tmNative(a[0]); ok {
				return t.String()
			}
			return "<symbolic time>"
		},
		"(time.Time).GoString": func(fr *frame, a []value) value { return "<time>" },
		"(time.Time).Year":     native("Year", func(t time.Time, a []value) value { return t.Year() }),
		"(time.Time).Nanosecond": func(fr *frame, a []value) value {
			ps := fr.i.ps
			return ps.symOrConcInt(ps.i64(token.REM, ps.i64(token.SUB, tmExt(a[0]), timeBias), int64(1e9)))
		},
	}
	for k, v := range m {
		if _, dup := externals[k]; dup && k == "time.Now" {
			timeModelled[k] = true
			continue // the file-system model's strictly increasing clock
		}
		externals[k] = v
		timeModelled[k] = true
	}
}

// symOrConcInt converts an int64-valued result to Go's int.
func (ps *pathState) symOrConcInt(v value) value {
	if s, ok := v.(*sym); ok {
		return ps.symConvInt(s, types.Int)
	}
	return int(asInt64(v))
}

// timeGuard reports functions of package time that touch a Time but are not
// modelled (interpreting their real bodies over the model's representation
// would compute nonsense).
func timeGuard(fn *ssa.Function) {
	pkg := fnPkg(fn)
	if pkg == nil || pkg.Pkg.Path() != "time" {
		return
	}
	mentions := func(t types.Type) bool {
		if p, ok := t.(*types.Pointer); ok {
			t = p.Elem()
		}
		n, ok := t.(*types.Named)
		return ok && n.Obj().Pkg() != nil && n.Obj().Pkg().Path() == "time" && n.Obj().Name() == "Time"
	}
	sig := fn.Signature
	bad := sig.Recv() != nil && mentions(sig.Recv().Type())
	for i := 0; i < sig.Params().Len(); i++ {
		bad = bad || mentions(sig.Params().At(i).Type())
	}
	for i := 0; i < sig.Results().Len(); i++ {
		bad = bad || mentions(sig.Results().At(i).Type())
	}
	if bad {
		panic(engineError("time model: " + funcKey(fn) + " is not modelled (engine/interp/timemodel.go)"))
	}
}
