package interp

// Path state for concolic exploration: the current model drives execution;
// every symbolic branch generates (at most) one alternative work item whose
// model is produced by the solver.

import (
	"fmt"
	"sort"
	"strings"
)

type decision struct {
	Taken bool   `json:"t"`
	IsVal bool   `json:"iv,omitempty"`
	Val   uint64 `json:"v,omitempty"`
}

// WorkItem is a path to explore: a model satisfying the path condition of the
// decision prefix Expected.
type WorkItem struct {
	Model    Model
	Expected []decision
}

type pathAbort struct {
	kind string // "infeasible", "inconclusive", "violation-stop", "done"
	msg  string
}

// Violation describes a failed assertion together with a witness model.
type Violation struct {
	Harness string
	Label   string
	Msg     string
	Model   Model
	Inputs  []InputRec
	Decs    []decision
	Where   string
}

type InputRec struct {
	Name string `json:"name"`
	Kind string `json:"kind"`
	// terms, one per element (a scalar has exactly one)
	terms []*Term
}

type pathState struct {
	ts     *TermStore
	solver *Solver
	cfg    *ExploreConfig

	model Model
	ev    *evalCtx

	pc       []*Term
	pcSet    map[int]bool
	flushed  int
	expected []decision
	decs     []decision

	alts       []*WorkItem
	violations []*Violation
	covers     map[string]bool
	inputs     []InputRec
	nameCount  map[string]int

	steps        int64
	inconclusive []string
	obligations  int
	discharged   int
	assumes      int
	hashApps     map[string][]*hashApp
	hashSymbolic map[string]bool
	hashMemo     map[string]*hashApp
	funcsSeen    map[string]bool
	stubsSeen    map[string]bool
	notes        []string
	trace        []string
	allocLimit   int64
}

func newPathState(cfg *ExploreConfig, solver *Solver, item *WorkItem) *pathState {
	ps := &pathState{
		ts: NewTermStore(), solver: solver, cfg: cfg,
		model: item.Model, expected: item.Expected,
		pcSet: make(map[int]bool), covers: make(map[string]bool), nameCount: make(map[string]int),
		hashApps: make(map[string][]*hashApp), funcsSeen: make(map[string]bool), stubsSeen: make(map[string]bool),
	}
	if ps.model == nil {
		ps.model = Model{}
	}
	ps.ev = newEvalCtx(ps.model)
	if solver != nil {
		solver.Reset()
	}
	return ps
}

func (ps *pathState) setModel(m Model) {
	// keep values of variables the solver did not report
	for k, v := range ps.model {
		if _, ok := m[k]; !ok {
			m[k] = v
		}
	}
	ps.model = m
	ps.ev = newEvalCtx(m)
}

func (ps *pathState) flush() {
	for ps.flushed < len(ps.pc) {
		ps.solver.Assert(ps.pc[ps.flushed])
		ps.flushed++
	}
}

func (ps *pathState) addPC(t *Term) {
	if isTrue(t) || ps.pcSet[t.id] {
		return
	}
	// split conjunctions so that pcSet lookups are more effective
	if t.op == OpAnd {
		ps.addPC(t.args[0])
		ps.addPC(t.args[1])
		return
	}
	ps.pcSet[t.id] = true
	ps.pc = append(ps.pc, t)
}

func (ps *pathState) query(extra ...*Term) (SolverResult, Model) {
	if ps.solver == nil {
		return Unknown, nil
	}
	ps.flush()
	return ps.solver.Check(extra, ps.ts.vars, true)
}

func (ps *pathState) markInconclusive(why string) {
	ps.inconclusive = append(ps.inconclusive, why)
}

// decide returns the truth value of c on this path, forking an alternative.
func (ps *pathState) decide(c *Term) bool {
	return ps.decideV(c, false, 0)
}

func (ps *pathState) decideV(c *Term, isVal bool, val uint64) bool {
	if c.op == OpConst {
		return c.cval != 0
	}
	if ps.pcSet[c.id] {
		return true
	}
	nc := ps.ts.Not(c)
	if ps.pcSet[nc.id] {
		return false
	}
	v := ps.ev.evalBool(c)
	idx := len(ps.decs)
	if idx < len(ps.expected) {
		if ps.expected[idx].Taken != v {
			panic(engineError(fmt.Sprintf("path divergence at decision %d (expected %v, isVal=%v val=%d): cond %s; model %v; pc: %s", idx, ps.expected[idx].Taken, ps.expected[idx].IsVal, ps.expected[idx].Val, termString(c, 6), ps.model, ps.pcString())))
		}
	} else {
		if ps.cfg.MaxDecisions > 0 && idx >= ps.cfg.MaxDecisions {
			ps.markInconclusive(fmt.Sprintf("decision budget %d exhausted", ps.cfg.MaxDecisions))
			panic(pathAbort{kind: "inconclusive", msg: "decision budget"})
		}
		other := nc
		if !v {
			other = c
		}
		if !ps.cfg.ConcreteOnly {
			res, m := ps.query(other)
			switch res {
			case Sat:
				exp := make([]decision, idx+1)
				copy(exp, ps.decs)
				exp[idx] = decision{Taken: !v, IsVal: isVal, Val: val}
				full := make(Model, len(ps.model))
				for k, x := range ps.model {
					full[k] = x
				}
				for k, x := range m {
					full[k] = x
				}
				ps.alts = append(ps.alts, &WorkItem{Model: full, Expected: exp})
			case Unknown:
				ps.markInconclusive("solver unknown on branch feasibility: " + ps.solver.LastErr)
			}
		}
	}
	ps.decs = append(ps.decs, decision{Taken: v, IsVal: isVal, Val: val})
	if v {
		ps.addPC(c)
	} else {
		ps.addPC(nc)
	}
	return v
}

// concretize case-splits a bit-vector term over its feasible values.
func (ps *pathState) concretize(t *Term, what string) uint64 {
	if t.op == OpConst {
		return t.cval
	}
	if t.sort.K == SBool {
		if ps.decide(t) {
			return 1
		}
		return 0
	}
	limit := ps.cfg.ConcretizeCap
	if limit <= 0 {
		limit = 8
	}
	// If the path condition already pins the value, no decision is consumed
	// (this must be checked before looking at the expected decisions, which
	// belong to decision indices, not to this site).
	vm := ps.ev.evalU(t)
	if cm := ps.ts.Eq(t, ps.ts.BV(vm, t.sort.W)); isTrue(cm) || ps.pcSet[cm.id] {
		return vm
	}
	for n := 0; ; n++ {
		if n >= limit {
			ps.markInconclusive(fmt.Sprintf("concretization cap %d exceeded for %s: %s", limit, what, termString(t, 6)))
			panic(pathAbort{kind: "inconclusive", msg: "concretize cap"})
		}
		idx := len(ps.decs)
		var v uint64
		if idx < len(ps.expected) && ps.expected[idx].IsVal {
			v = ps.expected[idx].Val
		} else {
			v = ps.ev.evalU(t)
		}
		c := ps.ts.Eq(t, ps.ts.BV(v, t.sort.W))
		if c.op == OpConst {
			if c.cval != 0 {
				return v
			}
			continue
		}
		if ps.decideV(c, true, v) {
			return v
		}
	}
}

// assume constrains the path; an unsatisfiable assumption ends the path.
func (ps *pathState) assume(c *Term) {
	ps.assumes++
	if c.op == OpConst {
		if c.cval == 0 {
			panic(pathAbort{kind: "infeasible"})
		}
		return
	}
	if !ps.ev.evalBool(c) {
		if ps.cfg.ConcreteOnly {
			panic(pathAbort{kind: "infeasible"})
		}
		res, m := ps.query(c)
		switch res {
		case Sat:
			ps.setModel(m)
		case Unsat:
			panic(pathAbort{kind: "infeasible"})
		default:
			ps.markInconclusive("solver unknown on assumption: " + ps.solver.LastErr)
			panic(pathAbort{kind: "inconclusive", msg: "assume unknown"})
		}
	}
	ps.addPC(c)
}

// tryAssume adds c if it is satisfiable together with the path condition.
func (ps *pathState) tryAssume(c *Term) {
	if c.op == OpConst || ps.cfg.ConcreteOnly {
		return
	}
	if ps.ev.evalBool(c) {
		ps.addPC(c)
		return
	}
	if res, m := ps.query(c); res == Sat {
		ps.setModel(m)
		ps.addPC(c)
	}
}

// axiom adds a background fact (e.g. hash injectivity); same as assume but
// not counted as a harness assumption.
func (ps *pathState) axiom(c *Term) {
	n := ps.assumes
	ps.assume(c)
	ps.assumes = n
}

func (ps *pathState) assert(c *Term, label, where string) {
	ps.obligations++
	if c.op == OpConst {
		if c.cval != 0 {
			ps.discharged++
			return
		}
		ps.recordViolation(label, where, ps.model)
		panic(pathAbort{kind: "violation-stop"})
	}
	if ps.cfg.ConcreteOnly {
		if ps.ev.evalBool(c) {
			ps.discharged++
			return
		}
		ps.recordViolation(label, where, ps.model)
		panic(pathAbort{kind: "violation-stop"})
	}
	res, m := ps.query(ps.ts.Not(c))
	switch res {
	case Unsat:
		ps.discharged++
		ps.addPC(c)
	case Sat:
		full := make(Model, len(ps.model))
		for k, x := range ps.model {
			full[k] = x
		}
		for k, x := range m {
			full[k] = x
		}
		ps.recordViolation(label, where, full)
		// continue on the side where the assertion holds, if any
		ps.assume(c)
	default:
		ps.markInconclusive("solver unknown on assertion " + label + ": " + ps.solver.LastErr)
		ps.assume(c)
	}
}

func (ps *pathState) recordViolation(label, where string, m Model) {
	decs := make([]decision, len(ps.decs))
	copy(decs, ps.decs)
	ins := make([]InputRec, len(ps.inputs))
	copy(ins, ps.inputs)
	ps.violations = append(ps.violations, &Violation{Label: label, Where: where, Model: m, Inputs: ins, Decs: decs})
}

func (ps *pathState) uniqueName(name string) string {
	n := ps.nameCount[name]
	ps.nameCount[name] = n + 1
	if n == 0 {
		return name
	}
	return fmt.Sprintf("%s#%d", name, n)
}

func (ps *pathState) pcString() string {
	var parts []string
	for _, t := range ps.pc {
		parts = append(parts, termString(t, 3))
	}
	return strings.Join(parts, " ∧ ")
}

func termString(t *Term, depth int) string {
	switch t.op {
	case OpConst:
		return constSMT(t)
	case OpVar:
		return t.name
	}
	if depth == 0 {
		return "…"
	}
	var sb strings.Builder
	sb.WriteString("(")
	if t.op == OpExtract {
		fmt.Fprintf(&sb, "extract[%d:%d]", t.hi, t.lo)
	} else if n, ok := opNames[t.op]; ok {
		sb.WriteString(n)
	} else {
		fmt.Fprintf(&sb, "op%d", t.op)
	}
	for _, a := range t.args {
		sb.WriteString(" ")
		sb.WriteString(termString(a, depth-1))
	}
	sb.WriteString(")")
	return sb.String()
}

func sortedKeys(m map[string]bool) []string {
	var ks []string
	for k := range m {
		ks = append(ks, k)
	}
	sort.Strings(ks)
	return ks
}

type engineError string

func (e engineError) Error() string { return string(e) }
