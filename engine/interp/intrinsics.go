package interp

// Engine intrinsics: the harness API (verifsym), and models of the runtime /
// standard-library leaves that cannot be interpreted (assembly, unsafe,
// runtime hooks).  Every intrinsic hit is listed in the evidence ("stubs").

import (
	"crypto/sha256"
	"fmt"
	"go/token"
	"go/types"
	"math"
	"sort"
	"strings"
	"time"
	"unsafe"

	keccak "github.com/filecoin-project/go-keccak"
	"golang.org/x/crypto/blake2b"
	"golang.org/x/tools/go/ssa"
)

const symPkg = TargetModule + "/internal/verifsym."

func init() {
	for k, v := range map[string]externalFn{
		// ---- harness API ----
		symPkg + "Bool":     func(fr *frame, a []value) value { return fr.fresh(a, types.Bool) },
		symPkg + "Uint8":    func(fr *frame, a []value) value { return fr.fresh(a, types.Uint8) },
		symPkg + "Uint16":   func(fr *frame, a []value) value { return fr.fresh(a, types.Uint16) },
		symPkg + "Uint32":   func(fr *frame, a []value) value { return fr.fresh(a, types.Uint32) },
		symPkg + "Uint64":   func(fr *frame, a []value) value { return fr.fresh(a, types.Uint64) },
		symPkg + "Int":      func(fr *frame, a []value) value { return fr.fresh(a, types.Int) },
		symPkg + "Int8":     func(fr *frame, a []value) value { return fr.fresh(a, types.Int8) },
		symPkg + "Int16":    func(fr *frame, a []value) value { return fr.fresh(a, types.Int16) },
		symPkg + "Int32":    func(fr *frame, a []value) value { return fr.fresh(a, types.Int32) },
		symPkg + "Int64":    func(fr *frame, a []value) value { return fr.fresh(a, types.Int64) },
		symPkg + "Bytes":    extSymBytes,
		symPkg + "Choice":   extSymChoice,
		symPkg + "Assume":   extSymAssume,
		symPkg + "Assert":   extSymAssert,
		symPkg + "Cover":    extSymCover,
		symPkg + "Note":     extSymNote,
		symPkg + "Observe":  extSymObserve,
		symPkg + "IteU64":   extSymIte,
		symPkg + "IteI64":   extSymIte,
		symPkg + "IteInt":   extSymIte,
		symPkg + "IteU8":    extSymIte,
		symPkg + "IteBool":  extSymIte,
		symPkg + "IteBytes": extSymIte,
		symPkg + "And": func(fr *frame, a []value) value {
			return mkBool(fr.i.ps.ts.And(fr.i.ps.lift(a[0]), fr.i.ps.lift(a[1])))
		},
		symPkg + "Or": func(fr *frame, a []value) value {
			return mkBool(fr.i.ps.ts.Or(fr.i.ps.lift(a[0]), fr.i.ps.lift(a[1])))
		},
		symPkg + "Implies": func(fr *frame, a []value) value {
			return mkBool(fr.i.ps.ts.Implies(fr.i.ps.lift(a[0]), fr.i.ps.lift(a[1])))
		},
		symPkg + "Not":      func(fr *frame, a []value) value { return mkBool(fr.i.ps.ts.Not(fr.i.ps.lift(a[0]))) },
		symPkg + "Hash":     extSymHash,
		symPkg + "AllocLimit": func(fr *frame, a []value) value {
			fr.i.ps.allocLimit = asInt64(a[0])
			return nil
		},
		symPkg + "CheckAlloc": extNop,
		symPkg + "PickU64": func(fr *frame, a []value) value {
			return fr.i.ps.concValue(a[0], "verifsym.PickU64")
		},
		symPkg + "Concrete": func(fr *frame, a []value) value { return !isSym(a[0]) },
		symPkg + "Engine":   func(fr *frame, a []value) value { return true },
		symPkg + "Tier":     func(fr *frame, a []value) value { return fr.i.ps.cfg.Tier },

		// ---- runtime ----
		"runtime.SetFinalizer": extNop,
		"runtime.KeepAlive":    extNop,
		"runtime.Gosched":      func(fr *frame, a []value) value { fr.i.yield(); return nil },
		"runtime.GC":           extNop,
		"runtime.GOMAXPROCS":   func(fr *frame, a []value) value { return 16 },
		"runtime.NumCPU":       func(fr *frame, a []value) value { return 16 },
		"runtime.NumGoroutine": func(fr *frame, a []value) value { return 1 },
		"runtime.Caller": func(fr *frame, a []value) value {
			return tuple{uintptr(0), "", 0, false}
		},
		"runtime.Callers":          func(fr *frame, a []value) value { return 0 },
		"runtime.Stack":            func(fr *frame, a []value) value { return 0 },
		"runtime/debug.Stack":      func(fr *frame, a []value) value { return []value(nil) },
		"runtime.Goexit":           func(fr *frame, a []value) value { panic(engineError("runtime.Goexit is not supported")) },
		"os.Exit":                  func(fr *frame, a []value) value { panic(engineError("os.Exit called")) },
		"os.Getenv":                func(fr *frame, a []value) value { return "" },
		"os.LookupEnv":             func(fr *frame, a []value) value { return tuple{"", false} },
		"internal/godebug.New":     func(fr *frame, a []value) value { return (*value)(nil) },
		"(*internal/godebug.Setting).Value": func(fr *frame, a []value) value { return "" },
		"(*internal/godebug.Setting).IncNonDefault": extNop,
		"internal/race.Acquire":    extNop,
		"internal/race.Release":    extNop,
		"internal/race.ReleaseMerge": extNop,
		"internal/race.Read":       extNop,
		"internal/race.Write":      extNop,
		"internal/race.ReadRange":  extNop,
		"internal/race.WriteRange": extNop,
		"internal/race.Disable":    extNop,
		"internal/race.Enable":     extNop,

		// ---- time ----
		"time.Sleep": func(fr *frame, a []value) value { fr.i.yield(); return nil },
		// Duration -> float64 seconds: used by go-f3 only to feed metrics and
		// debug output (both opaque); a symbolic duration yields 0 instead of
		// forcing a case split (recorded as a stub in the evidence).
		"(time.Duration).Seconds": func(fr *frame, a []value) value {
			if isSym(a[0]) {
				return float64(0)
			}
			d := asInt64(a[0])
			return float64(d/1e9) + float64(d%1e9)/1e9
		},
		"time.now":   func(fr *frame, a []value) value { return tuple{int64(1_700_000_000), int32(0), int64(1_000_000)} },
		"time.runtimeNano": func(fr *frame, a []value) value { return int64(1_000_000) },

		// ---- sync ----
		"(*sync.Mutex).Lock":      extMutexLock,
		"(*sync.Mutex).Unlock":    extMutexUnlock,
		"(*sync.Mutex).TryLock":   extMutexTryLock,
		"(*sync.RWMutex).Lock":    extMutexLock,
		"(*sync.RWMutex).Unlock":  extMutexUnlock,
		"(*sync.RWMutex).TryLock": extMutexTryLock,
		"(*sync.RWMutex).RLock":   extRLock,
		"(*sync.RWMutex).RUnlock": extRUnlock,
		"(*sync.RWMutex).TryRLock": func(fr *frame, a []value) value {
			st := fr.i.mutexState(a[0].(*value))
			if st.w {
				return false
			}
			st.r++
			return true
		},
		"(*sync.Once).Do":        extOnceDo,
		"(*sync.WaitGroup).Add":  extWGAdd,
		"(*sync.WaitGroup).Done": func(fr *frame, a []value) value { return extWGAdd(fr, []value{a[0], -1}) },
		"(*sync.WaitGroup).Wait": extWGWait,
		"(*sync.WaitGroup).Go": func(fr *frame, a []value) value {
			extWGAdd(fr, []value{a[0], 1})
			call(fr.i, fr, token.NoPos, a[1], nil)
			return extWGAdd(fr, []value{a[0], -1})
		},
		"(*sync.Pool).Get": extPoolGet,
		"(*sync.Pool).Put": extNop,
		"(*sync.Cond).Wait":      extCondWait,
		"(*sync.Cond).Signal":    extCondSignal,
		"(*sync.Cond).Broadcast": extCondSignal,

		// ---- sync/atomic ----
		"sync/atomic.LoadInt32":    extAtomicLoad,
		"sync/atomic.LoadInt64":    extAtomicLoad,
		"sync/atomic.LoadUint32":   extAtomicLoad,
		"sync/atomic.LoadUint64":   extAtomicLoad,
		"sync/atomic.LoadUintptr":  extAtomicLoad,
		"sync/atomic.LoadPointer":  extAtomicLoad,
		"sync/atomic.StoreInt32":   extAtomicStore,
		"sync/atomic.StoreInt64":   extAtomicStore,
		"sync/atomic.StoreUint32":  extAtomicStore,
		"sync/atomic.StoreUint64":  extAtomicStore,
		"sync/atomic.StoreUintptr": extAtomicStore,
		"sync/atomic.StorePointer": extAtomicStore,
		"sync/atomic.AddInt32":     extAtomicAdd,
		"sync/atomic.AddInt64":     extAtomicAdd,
		"sync/atomic.AddUint32":    extAtomicAdd,
		"sync/atomic.AddUint64":    extAtomicAdd,
		"sync/atomic.AddUintptr":   extAtomicAdd,
		"sync/atomic.SwapInt32":    extAtomicSwap,
		"sync/atomic.SwapInt64":    extAtomicSwap,
		"sync/atomic.SwapUint32":   extAtomicSwap,
		"sync/atomic.SwapUint64":   extAtomicSwap,
		"sync/atomic.SwapPointer":  extAtomicSwap,
		"sync/atomic.CompareAndSwapInt32":   extAtomicCAS,
		"sync/atomic.CompareAndSwapInt64":   extAtomicCAS,
		"sync/atomic.CompareAndSwapUint32":  extAtomicCAS,
		"sync/atomic.CompareAndSwapUint64":  extAtomicCAS,
		"sync/atomic.CompareAndSwapUintptr": extAtomicCAS,
		"sync/atomic.CompareAndSwapPointer": extAtomicCAS,
		"(*sync/atomic.Pointer[T]).Load":           extAtomicBoxLoad,
		"(*sync/atomic.Pointer[T]).Store":          extAtomicBoxStore,
		"(*sync/atomic.Pointer[T]).Swap":           extAtomicBoxSwap,
		"(*sync/atomic.Pointer[T]).CompareAndSwap": extAtomicBoxCAS,
		"(*sync/atomic.Value).Load":                extAtomicValueLoad,
		"(*sync/atomic.Value).Store":               extAtomicBoxStore,
		"(*sync/atomic.Value).Swap":                extAtomicBoxSwap,
		"(*sync/atomic.Value).CompareAndSwap":      extAtomicBoxCAS,

		// ---- strings / bytes leaves ----
		"(*strings.Builder).String":    extBuilderString,
		"(*strings.Builder).copyCheck": extNop,
		"internal/bytealg.IndexByte":        extIndexByte,
		"internal/bytealg.IndexByteString":  extIndexByte,
		"internal/bytealg.LastIndexByte":    extLastIndexByte,
		"internal/bytealg.LastIndexByteString": extLastIndexByte,
		"internal/bytealg.Index":            extIndex,
		"internal/bytealg.IndexString":      extIndex,
		"internal/bytealg.Count":            extCount,
		"internal/bytealg.CountString":      extCount,
		"internal/bytealg.Equal":            extBytesEqual,
		"internal/bytealg.Compare":          extCompare,
		"internal/bytealg.CompareString":    extCompare,
		"internal/bytealg.MakeNoZero": func(fr *frame, a []value) value {
			n := fr.i.ps.makeLen(a[0], "MakeNoZero", 1)
			s := make([]value, n)
			for i := range s {
				s[i] = uint8(0)
			}
			return s
		},
		"internal/stringslite.Clone": func(fr *frame, a []value) value { return a[0] },
		"strings.Clone":              func(fr *frame, a []value) value { return a[0] },
		"bytes.Equal":                extBytesEqual,
		"bytes.Compare":              extCompare,
		"strings.Compare":            extCompare,
		"internal/abi.NoEscape":      func(fr *frame, a []value) value { return a[0] },
		"internal/abi.Escape":        func(fr *frame, a []value) value { return a[0] },
		"crypto/subtle.ConstantTimeCompare": func(fr *frame, a []value) value {
			r := extBytesEqual(fr, a)
			if fr.i.ps.truth(r) {
				return 1
			}
			return 0
		},

		// ---- math leaves ----
		"math.Float64bits":     func(fr *frame, a []value) value { return math.Float64bits(a[0].(float64)) },
		"math.Float64frombits": func(fr *frame, a []value) value { return math.Float64frombits(fr.i.ps.concValue(a[0], "Float64frombits").(uint64)) },
		"math.Float32bits":     func(fr *frame, a []value) value { return math.Float32bits(a[0].(float32)) },
		"math.Float32frombits": func(fr *frame, a []value) value { return math.Float32frombits(a[0].(uint32)) },
		"math.Pow":             func(fr *frame, a []value) value { return math.Pow(a[0].(float64), a[1].(float64)) },
		"math.Log2":            func(fr *frame, a []value) value { return math.Log2(a[0].(float64)) },
		"math.Log":             func(fr *frame, a []value) value { return math.Log(a[0].(float64)) },
		"math.Exp":             func(fr *frame, a []value) value { return math.Exp(a[0].(float64)) },
		"math.Sqrt":            func(fr *frame, a []value) value { return math.Sqrt(a[0].(float64)) },
		"math.Floor":           func(fr *frame, a []value) value { return math.Floor(a[0].(float64)) },
		"math.Ceil":            func(fr *frame, a []value) value { return math.Ceil(a[0].(float64)) },
		"math.Trunc":           func(fr *frame, a []value) value { return math.Trunc(a[0].(float64)) },
		"math.Abs":             func(fr *frame, a []value) value { return math.Abs(a[0].(float64)) },
		"math.Inf":             func(fr *frame, a []value) value { return math.Inf(a[0].(int)) },
		"math.IsNaN":           func(fr *frame, a []value) value { return math.IsNaN(a[0].(float64)) },
		"math.IsInf":           func(fr *frame, a []value) value { return math.IsInf(a[0].(float64), a[1].(int)) },
		"math.NaN":             func(fr *frame, a []value) value { return math.NaN() },
		"math.Min":             func(fr *frame, a []value) value { return math.Min(a[0].(float64), a[1].(float64)) },
		"math.Max":             func(fr *frame, a []value) value { return math.Max(a[0].(float64), a[1].(float64)) },
		"math.Ldexp":           func(fr *frame, a []value) value { return math.Ldexp(a[0].(float64), a[1].(int)) },
		"math.Frexp": func(fr *frame, a []value) value {
			f, e := math.Frexp(a[0].(float64))
			return tuple{f, e}
		},
		"math.Modf": func(fr *frame, a []value) value {
			f, e := math.Modf(a[0].(float64))
			return tuple{f, e}
		},
		"math.Copysign": func(fr *frame, a []value) value { return math.Copysign(a[0].(float64), a[1].(float64)) },

		"encoding/binary.Write": extBinaryWrite,
		"context.WithValue": func(fr *frame, a []value) value {
			if a[0].(iface).t == nil {
				panic(targetPanic{v: rtErr("cannot create context from nil parent")})
			}
			if a[1].(iface).t == nil {
				panic(targetPanic{v: rtErr("nil key")})
			}
			v := value(structure{a[0], a[1], a[2]})
			return iface{t: types.NewPointer(fr.i.namedType("context", "valueCtx")), v: &v}
		},
		"crypto/rand.Read": func(fr *frame, a []value) value {
			b := a[0].([]value)
			for k := range b {
				b[k] = uint8(0x40 + k%64)
			}
			return tuple{len(b), iface{}}
		},

		// ---- sort ----
		"sort.Slice":       extSortSlice,
		"sort.SliceStable": extSortSlice,

		// ---- fmt / errors ----
		"fmt.Sprintf":  extSprintf,
		"fmt.Sprint":   extSprint,
		"fmt.Sprintln": extSprint,
		"fmt.Errorf":   extErrorf,
		"fmt.Println":  extNop2,
		"fmt.Printf":   extNop2,
		"fmt.Print":    extNop2,
		"fmt.Fprintf":  extNop2,
		"fmt.Fprintln": extNop2,
		"fmt.Fprint":   extNop2,
		"errors.Is":    extErrorsIs,
		"errors.As":    extErrorsAs,
		"golang.org/x/xerrors.Errorf": extErrorf,
		"golang.org/x/xerrors.Is":     extErrorsIs,
		"golang.org/x/xerrors.As":     extErrorsAs,
		"golang.org/x/xerrors.New": func(fr *frame, a []value) value {
			return fr.i.makeError(strOf(a[0]), nil)
		},

		// ---- hashes (native on concrete input, ideal on symbolic input) ----
		TargetModule + "/merkle.hash": func(fr *frame, a []value) value {
			var data []value
			for _, v := range a[1].([]value) {
				data = append(data, v.([]value)...)
			}
			return fr.i.hashArray("keccak256", data, 32, func(b []byte) []byte {
				h := keccak.NewLegacyKeccak256()
				h.Write(b)
				return h.Sum(nil)
			})
		},
		"golang.org/x/crypto/blake2b.Sum256": func(fr *frame, a []value) value {
			return fr.i.hashArray("blake2b256", a[0].([]value), 32, func(b []byte) []byte { h := blake2b.Sum256(b); return h[:] })
		},
		TargetModule + "/gpbft.MakeCid": func(fr *frame, a []value) value {
			d := fr.i.hashBytes("blake2b256", a[0].([]value), 32, func(b []byte) []byte { h := blake2b.Sum256(b); return h[:] })
			// CIDv1, dag-cbor (0x71), blake2b-256 (0xb220 varint = a0 e4 02), length 0x20
			hdr := []byte{0x01, 0x71, 0xa0, 0xe4, 0x02, 0x20}
			s := make(symstr, 0, len(hdr)+32)
			for _, b := range hdr {
				s = append(s, b)
			}
			s = append(s, d...)
			return structure{normStr(s)}
		},
		"(*" + TargetModule + "/internal/caching.Set).newKey": func(fr *frame, a []value) value {
			ns := a[1].([]value)
			// one domain for all namespaces: data = len(ns) ‖ ns ‖ v, so that digests under
			// different namespaces are related by the injectivity axioms too
			data := append(append([]value{uint8(len(ns))}, ns...), a[2].([]value)...)
			nsb := make([]byte, 0, len(ns))
			conc := true
			for _, b := range ns {
				if c, ok := b.(uint8); ok {
					nsb = append(nsb, c)
				} else {
					conc = false
				}
			}
			var native func([]byte) []byte
			if conc {
				native = func(b []byte) []byte {
					h, err := blake2b.New(blake2b.Size256, nsb)
					if err != nil {
						panic(engineError("blake2b key: " + err.Error()))
					}
					h.Write(b[1+len(nsb):])
					return h.Sum(nil)
				}
			}
			return tuple{fr.i.hashArray("blake2b-keyed", data, 32, native), iface{}}
		},
		"crypto/sha256.Sum256": func(fr *frame, a []value) value {
			return fr.i.hashArray("sha256", a[0].([]value), 32, func(b []byte) []byte { h := sha256.Sum256(b); return h[:] })
		},
	} {
		externals[k] = v
	}
}

func extNop(fr *frame, a []value) value { return nil }

// extNop2 is for functions returning (n int, err error).
func extNop2(fr *frame, a []value) value {
	if fr.fn.Signature.Results().Len() == 2 {
		return tuple{0, iface{}}
	}
	return nil
}

func strOf(v value) string {
	switch v := v.(type) {
	case string:
		return v
	case symstr:
		return fmt.Sprintf("<symbolic string len=%d>", len(v))
	}
	return fmt.Sprintf("%v", v)
}

// ---- verifsym ----

func (fr *frame) fresh(a []value, k types.BasicKind) value {
	ps := fr.i.ps
	name := ps.uniqueName(strOf(a[0]))
	var s Sort
	if k == types.Bool {
		s = sortBool
	} else {
		s = bvSort(kindWidth(k))
	}
	t := ps.ts.Var(name, s)
	ps.inputs = append(ps.inputs, InputRec{Name: name, Kind: strings.ToLower(types.Typ[k].Name()), terms: []*Term{t}})
	if ps.cfg.randomInputs {
		if _, ok := ps.model[name]; !ok {
			ps.model[name] = randomBits(ps.cfg.RandomSeed, name, s.W)
		}
	}
	if ps.cfg.ConcreteOnly {
		return concreteOfKind(k, ps.ev.evalU(t))
	}
	return &sym{t: t, k: k}
}

func extSymBytes(fr *frame, a []value) value {
	ps := fr.i.ps
	name := ps.uniqueName(strOf(a[0]))
	n := int(ps.concInt(a[1], "verifsym.Bytes length"))
	out := make([]value, n)
	terms := make([]*Term, n)
	for i := 0; i < n; i++ {
		t := ps.ts.Var(fmt.Sprintf("%s[%d]", name, i), bvSort(8))
		terms[i] = t
		if ps.cfg.randomInputs {
			if _, ok := ps.model[t.name]; !ok {
				ps.model[t.name] = randomBits(ps.cfg.RandomSeed, t.name, 8)
			}
		}
		if ps.cfg.ConcreteOnly {
			out[i] = uint8(ps.ev.evalU(t))
		} else {
			out[i] = &sym{t: t, k: types.Uint8}
		}
	}
	ps.inputs = append(ps.inputs, InputRec{Name: name, Kind: "bytes", terms: terms})
	return out
}

func extSymChoice(fr *frame, a []value) value {
	ps := fr.i.ps
	v := fr.fresh(a, types.Int)
	k := asInt64(a[1])
	t := ps.lift(v)
	ps.assume(ps.ts.And(ps.ts.BVCmp(OpBVSLe, ps.ts.BV(0, 64), t), ps.ts.BVCmp(OpBVSLt, t, ps.ts.BV(uint64(k), 64))))
	ps.assumes--
	// choices select control flow: concretise right away
	saved := ps.cfg.ConcretizeCap
	if int(k)+1 > saved {
		ps.cfg.ConcretizeCap = int(k) + 1
	}
	r := int(ps.concInt(v, "verifsym.Choice"))
	ps.cfg.ConcretizeCap = saved
	return r
}

func extSymAssume(fr *frame, a []value) value {
	fr.i.ps.assume(fr.i.ps.lift(a[0]))
	return nil
}

func extSymAssert(fr *frame, a []value) value {
	where := ""
	if fr.caller != nil {
		where = fr.caller.where()
	}
	fr.i.ps.assert(fr.i.ps.lift(a[0]), strOf(a[1]), where)
	return nil
}

func extSymCover(fr *frame, a []value) value {
	fr.i.ps.covers[strOf(a[0])] = true
	return nil
}

func extSymNote(fr *frame, a []value) value {
	fr.i.ps.notes = append(fr.i.ps.notes, strOf(a[0]))
	return nil
}

// extSymObserve records a value in the trace compared by the self-check.
func extSymObserve(fr *frame, a []value) value {
	ps := fr.i.ps
	if ps.cfg.ConcreteOnly {
		t := ps.lift(a[1])
		ps.trace = append(ps.trace, fmt.Sprintf("%s=%d", strOf(a[0]), ps.ev.evalU(t)))
	}
	return nil
}

func extSymIte(fr *frame, a []value) value {
	ps := fr.i.ps
	c := ps.lift(a[0])
	return ps.iteValue(c, a[1], a[2])
}

// ---- ideal hashes ----

type hashApp struct {
	in       []value
	out      []*Term
	concrete bool
}

// hashAxiom: equal inputs <=> equal outputs (different lengths: different outputs).
func (ps *pathState) hashAxiom(app, prev *hashApp, n int) {
	outEq := ps.ts.Bool(true)
	for k := 0; k < n; k++ {
		outEq = ps.ts.And(outEq, ps.ts.Eq(app.out[k], prev.out[k]))
	}
	if len(prev.in) != len(app.in) {
		ps.axiom(ps.ts.Not(outEq))
		return
	}
	inEq := ps.ts.Bool(true)
	for k := range app.in {
		inEq = ps.ts.And(inEq, ps.ts.Eq(ps.lift(app.in[k]), ps.lift(prev.in[k])))
	}
	ps.axiom(ps.ts.Eq(inEq, outEq))
}

// hashBytes applies the ideal hash `domain` to data, returning n bytes.
func (i *interpreter) hashBytes(domain string, data []value, n int, native func([]byte) []byte) []value {
	ps := i.ps
	concrete := true
	for _, b := range data {
		if _, ok := b.(uint8); !ok {
			concrete = false
			break
		}
	}
	if concrete && native != nil {
		bs := make([]byte, len(data))
		for k, b := range data {
			bs[k] = b.(uint8)
		}
		d := native(bs)
		out := make([]value, n)
		app := &hashApp{in: append([]value(nil), data...), concrete: true}
		for k := 0; k < n; k++ {
			out[k] = d[k]
			app.out = append(app.out, ps.ts.BV(uint64(d[k]), 8))
		}
		// consistency/injectivity against earlier symbolic applications in this domain
		for _, prev := range ps.hashApps[domain] {
			if !prev.concrete {
				ps.hashAxiom(app, prev, n)
			}
		}
		if ps.hashSymbolic[domain] || len(ps.hashApps[domain]) < 4096 {
			ps.hashApps[domain] = append(ps.hashApps[domain], app)
		}
		return out
	}
	// symbolic input: fresh output bytes + functional consistency and injectivity
	// against every earlier application (symbolic or concrete) in the same domain.
	if ps.hashSymbolic == nil {
		ps.hashSymbolic = map[string]bool{}
		ps.hashMemo = map[string]*hashApp{}
	}
	ps.hashSymbolic[domain] = true
	// functional consistency by construction: syntactically identical input => same output terms
	var mk strings.Builder
	mk.WriteString(domain)
	for _, b := range data {
		t := ps.lift(b)
		if t.op == OpConst {
			fmt.Fprintf(&mk, "|c%d", t.cval)
		} else {
			fmt.Fprintf(&mk, "|t%d", t.id)
		}
	}
	memoKey := mk.String()
	if prev, ok := ps.hashMemo[memoKey]; ok {
		out := make([]value, n)
		for k := 0; k < n; k++ {
			out[k] = &sym{t: prev.out[k], k: types.Uint8}
		}
		return out
	}
	idx := len(ps.hashApps[domain])
	app := &hashApp{in: append([]value(nil), data...)}
	for k := 0; k < n; k++ {
		app.out = append(app.out, ps.ts.Var(fmt.Sprintf("H_%s_%d[%d]", domain, idx, k), bvSort(8)))
	}
	for _, prev := range ps.hashApps[domain] {
		ps.hashAxiom(app, prev, n)
	}
	// no guessing (restricted form): a digest is never the all-zero string, which the
	// code uses as a distinguished "no value" constant (merkle.ZeroDigest, bottom key)
	allZero := ps.ts.Bool(true)
	for k := 0; k < n; k++ {
		allZero = ps.ts.And(allZero, ps.ts.Eq(app.out[k], ps.ts.BV(0, 8)))
	}
	ps.axiom(ps.ts.Not(allZero))
	ps.hashApps[domain] = append(ps.hashApps[domain], app)
	ps.hashMemo[memoKey] = app
	out := make([]value, n)
	for k := 0; k < n; k++ {
		out[k] = &sym{t: app.out[k], k: types.Uint8}
	}
	return out
}

func (i *interpreter) hashArray(domain string, data []value, n int, native func([]byte) []byte) value {
	return array(i.hashBytes(domain, data, n, native))
}

func extSymHash(fr *frame, a []value) value {
	dom := strOf(a[0])
	// one ideal hash for all harness domains: data = len(dom) ‖ dom ‖ payload, so that
	// digests of different domains are related by the injectivity axioms as well
	data := []value{uint8(len(dom))}
	for k := 0; k < len(dom); k++ {
		data = append(data, dom[k])
	}
	pre := len(data)
	data = append(data, a[1].([]value)...)
	return fr.i.hashBytes("sym", data, 32, func(b []byte) []byte {
		b = b[pre:]
		h := sha256.New()
		h.Write([]byte{byte(len(dom))})
		h.Write([]byte(dom))
		var l [8]byte
		n := uint64(len(b))
		for i := 0; i < 8; i++ {
			l[i] = byte(n >> (8 * i))
		}
		h.Write(l[:])
		h.Write(b)
		return h.Sum(nil)
	})
}

// ---- time ----

func extTimeNow(fr *frame, a []value) value {
	// wall=0 (no monotonic), ext=seconds since year 1, loc=nil(UTC)
	return structure{uint64(0), int64(63_800_000_000), (*value)(nil)}
}

// ---- sync ----

type mutexState struct {
	w bool
	r int
}

func (i *interpreter) mutexState(p *value) *mutexState {
	if st, ok := i.side[p].(*mutexState); ok {
		return st
	}
	st := &mutexState{}
	i.side[p] = st
	return st
}

func extMutexLock(fr *frame, a []value) value {
	st := fr.i.mutexState(a[0].(*value))
	fr.i.yieldUntil(func() bool { return !st.w && st.r == 0 }, "Lock of a locked mutex (deadlock) at "+fr.caller.where())
	st.w = true
	return nil
}

func extMutexUnlock(fr *frame, a []value) value {
	st := fr.i.mutexState(a[0].(*value))
	if !st.w {
		panic(targetPanic{v: rtErr("fatal error: sync: unlock of unlocked mutex")})
	}
	st.w = false
	return nil
}

func extMutexTryLock(fr *frame, a []value) value {
	st := fr.i.mutexState(a[0].(*value))
	if st.w || st.r > 0 {
		return false
	}
	st.w = true
	return true
}

func extRLock(fr *frame, a []value) value {
	st := fr.i.mutexState(a[0].(*value))
	fr.i.yieldUntil(func() bool { return !st.w }, "RLock of a write-locked mutex (deadlock) at "+fr.caller.where())
	st.r++
	return nil
}

func extRUnlock(fr *frame, a []value) value {
	st := fr.i.mutexState(a[0].(*value))
	if st.r <= 0 {
		panic(targetPanic{v: rtErr("fatal error: sync: RUnlock of unlocked RWMutex")})
	}
	st.r--
	return nil
}

type onceState struct{ done bool }

func extOnceDo(fr *frame, a []value) value {
	// The done flag lives in the Once value itself (field done.v), so that
	// copying or zeroing the enclosing struct behaves as in Go.
	p := a[0].(*value)
	once, ok := (*p).(structure)
	if !ok || len(once) < 2 {
		panic(engineError("sync.Once: unexpected representation"))
	}
	done, ok := once[1].(structure)
	if !ok || len(done) < 2 {
		panic(engineError("sync.Once: unexpected representation of the done flag"))
	}
	if asUint64Any(done[1]) != 0 {
		return nil
	}
	done[1] = uint32(1)
	call(fr.i, fr, token.NoPos, a[1], nil)
	return nil
}

type wgState struct{ n int64 }

func extWGAdd(fr *frame, a []value) value {
	p := a[0].(*value)
	st, ok := fr.i.side[p].(*wgState)
	if !ok {
		st = &wgState{}
		fr.i.side[p] = st
	}
	st.n += asInt64(a[1])
	if st.n < 0 {
		panic(targetPanic{v: rtErr("sync: negative WaitGroup counter")})
	}
	return nil
}

func extWGWait(fr *frame, a []value) value {
	p := a[0].(*value)
	st, ok := fr.i.side[p].(*wgState)
	if !ok {
		return nil
	}
	fr.i.yieldUntil(func() bool { return st.n <= 0 }, "WaitGroup.Wait with nothing runnable")
	return nil
}

func extPoolGet(fr *frame, a []value) value {
	p := a[0].(*value)
	st := (*p).(structure)
	// sync.Pool's last field is New func() any
	newFn := st[len(st)-1]
	switch f := newFn.(type) {
	case *ssa.Function:
		if f == nil {
			return iface{}
		}
	case nil:
		return iface{}
	}
	return call(fr.i, fr, token.NoPos, newFn, nil)
}

type condState struct{ gen int }

func (i *interpreter) condState(p *value) *condState {
	if st, ok := i.side[p].(*condState); ok {
		return st
	}
	st := &condState{}
	i.side[p] = st
	return st
}

func extCondWait(fr *frame, a []value) value {
	p := a[0].(*value)
	st := fr.i.condState(p)
	l := (*p).(structure)[1].(iface) // sync.Cond.L
	unlock := fr.i.methodOf(l.t, "Unlock")
	lock := fr.i.methodOf(l.t, "Lock")
	call(fr.i, fr, token.NoPos, unlock, []value{l.v})
	gen := st.gen
	fr.i.yieldUntil(func() bool { return st.gen != gen }, "sync.Cond.Wait never signalled")
	call(fr.i, fr, token.NoPos, lock, []value{l.v})
	return nil
}

func extCondSignal(fr *frame, a []value) value {
	fr.i.condState(a[0].(*value)).gen++
	return nil
}

// ---- atomics ----

func extAtomicLoad(fr *frame, a []value) value {
	p := a[0].(*value)
	if p == nil {
		rtPanic("invalid memory address or nil pointer dereference")
	}
	return *p
}

func extAtomicStore(fr *frame, a []value) value {
	p := a[0].(*value)
	if p == nil {
		rtPanic("invalid memory address or nil pointer dereference")
	}
	*p = a[1]
	return nil
}

func extAtomicAdd(fr *frame, a []value) value {
	p := a[0].(*value)
	*p = fr.i.ps.binop(token.ADD, nil, *p, a[1])
	return *p
}

func extAtomicSwap(fr *frame, a []value) value {
	p := a[0].(*value)
	old := *p
	*p = a[1]
	return old
}

func extAtomicCAS(fr *frame, a []value) value {
	p := a[0].(*value)
	if fr.i.ps.truth(fr.i.ps.eqv(nil, *p, a[1])) {
		*p = a[2]
		return true
	}
	return false
}

type boxState struct {
	v   value
	set bool
}

func (i *interpreter) box(p *value) *boxState {
	if st, ok := i.side[p].(*boxState); ok {
		return st
	}
	st := &boxState{}
	i.side[p] = st
	return st
}

func extAtomicBoxLoad(fr *frame, a []value) value {
	st := fr.i.box(a[0].(*value))
	if !st.set {
		return zero(fr.fn.Signature.Results().At(0).Type())
	}
	return st.v
}

func extAtomicValueLoad(fr *frame, a []value) value {
	st := fr.i.box(a[0].(*value))
	if !st.set {
		return iface{}
	}
	return st.v
}

func extAtomicBoxStore(fr *frame, a []value) value {
	st := fr.i.box(a[0].(*value))
	st.v, st.set = a[1], true
	return nil
}

func extAtomicBoxSwap(fr *frame, a []value) value {
	st := fr.i.box(a[0].(*value))
	old := st.v
	if !st.set {
		old = zero(fr.fn.Signature.Results().At(0).Type())
	}
	st.v, st.set = a[1], true
	return old
}

func extAtomicBoxCAS(fr *frame, a []value) value {
	st := fr.i.box(a[0].(*value))
	cur := st.v
	if !st.set {
		cur = zero(fr.fn.Signature.Params().At(0).Type())
	}
	var same bool
	switch c := cur.(type) {
	case *value:
		same = c == a[1].(*value)
	default:
		same = fr.i.ps.truth(fr.i.ps.eqv(nil, cur, a[1]))
	}
	if same {
		st.v, st.set = a[2], true
		return true
	}
	return false
}

// ---- strings/bytes ----

func extBuilderString(fr *frame, a []value) value {
	p := a[0].(*value)
	st := (*p).(structure)
	buf := st[1].([]value)
	r := make(symstr, len(buf))
	copy(r, buf)
	return normStr(r)
}

func bytesOf(v value) []value {
	switch v := v.(type) {
	case []value:
		return v
	case string, symstr:
		return strBytes(v)
	}
	panic(fmt.Sprintf("bytesOf: %T", v))
}

func extIndexByte(fr *frame, a []value) value {
	ps := fr.i.ps
	s := bytesOf(a[0])
	for i, b := range s {
		if ps.truth(ps.eqv(nil, b, a[1])) {
			return i
		}
	}
	return -1
}

func extLastIndexByte(fr *frame, a []value) value {
	ps := fr.i.ps
	s := bytesOf(a[0])
	for i := len(s) - 1; i >= 0; i-- {
		if ps.truth(ps.eqv(nil, s[i], a[1])) {
			return i
		}
	}
	return -1
}

func extIndex(fr *frame, a []value) value {
	ps := fr.i.ps
	s, sub := bytesOf(a[0]), bytesOf(a[1])
	for i := 0; i+len(sub) <= len(s); i++ {
		if ps.truth(ps.strEq(symstr(s[i:i+len(sub)]), symstr(sub))) {
			return i
		}
	}
	return -1
}

func extCount(fr *frame, a []value) value {
	ps := fr.i.ps
	s := bytesOf(a[0])
	n := 0
	for _, b := range s {
		if ps.truth(ps.eqv(nil, b, a[1])) {
			n++
		}
	}
	return n
}

func extBytesEqual(fr *frame, a []value) value {
	return fr.i.ps.strEq(symstr(bytesOf(a[0])), symstr(bytesOf(a[1])))
}

func extCompare(fr *frame, a []value) value {
	ps := fr.i.ps
	x, y := symstr(bytesOf(a[0])), symstr(bytesOf(a[1]))
	if ps.truth(ps.strEq(x, y)) {
		return 0
	}
	if ps.truth(ps.strLess(x, y, false)) {
		return -1
	}
	return 1
}

// ---- sort ----

func extSortSlice(fr *frame, a []value) value {
	s := a[0].(iface).v.([]value)
	less := a[1]
	ps := fr.i.ps
	// insertion sort (stable); the comparison closure indexes into the live slice
	for i := 1; i < len(s); i++ {
		for j := i; j > 0; j-- {
			if !ps.truth(call(fr.i, fr, token.NoPos, less, []value{j, j - 1})) {
				break
			}
			s[j], s[j-1] = s[j-1], s[j]
		}
	}
	return nil
}

// ---- fmt ----

// nativeArg converts an interpreter value to a Go value fmt can print.
func (i *interpreter) nativeArg(v value, concretize bool) interface{} {
	switch v := v.(type) {
	case iface:
		if v.t == nil {
			return nil
		}
		// errors and Stringers: use their methods
		if s := tryErrorString(i, v); s != "" {
			return fmtString(s)
		}
		return i.nativeArg(v.v, concretize)
	case *sym:
		if concretize {
			return i.ps.concValue(v, "fmt argument")
		}
		return fmtString("<sym>")
	case symstr:
		if concretize {
			bs := make([]byte, len(v))
			for k, b := range v {
				bs[k] = i.ps.concValue(b, "fmt string byte").(uint8)
			}
			return string(bs)
		}
		return fmtString("<symstr>")
	case bool, int, int8, int16, int32, int64, uint, uint8, uint16, uint32, uint64, uintptr, float32, float64, string, complex64, complex128:
		return v
	case []value:
		// byte slices print as such
		allBytes := len(v) > 0
		bs := make([]byte, 0, len(v))
		for _, e := range v {
			if concretize {
				e = i.ps.concValue(e, "fmt []byte")
			}
			b, ok := e.(uint8)
			if !ok {
				allBytes = false
				break
			}
			bs = append(bs, b)
		}
		if allBytes {
			return bs
		}
		out := make([]interface{}, len(v))
		for k, e := range v {
			out[k] = i.nativeArg(e, concretize)
		}
		return out
	case structure:
		out := make([]interface{}, len(v))
		for k, e := range v {
			out[k] = i.nativeArg(e, concretize)
		}
		return out
	case array:
		out := make([]interface{}, len(v))
		for k, e := range v {
			out[k] = i.nativeArg(e, concretize)
		}
		return out
	case *value:
		if v == nil {
			return nil
		}
		return fmtString(fmt.Sprintf("&%v", i.nativeArg(*v, false)))
	case nil:
		return nil
	}
	return fmtString(fmt.Sprintf("<%T>", v))
}

// fmtString prints as itself under every verb.
type fmtString string

func (s fmtString) Format(f fmt.State, verb rune) { f.Write([]byte(s)) }

func (i *interpreter) sprintf(format string, args []value, concretize bool) string {
	na := make([]interface{}, len(args))
	for k, a := range args {
		na[k] = i.nativeArg(a, concretize)
	}
	return fmt.Sprintf(format, na...)
}

func extSprintf(fr *frame, a []value) value {
	return fr.i.sprintf(strOf(a[0]), a[1].([]value), true)
}

func extSprint(fr *frame, a []value) value {
	args := a[0].([]value)
	na := make([]interface{}, len(args))
	for k, x := range args {
		na[k] = fr.i.nativeArg(x, true)
	}
	if fr.fn.Name() == "Sprintln" {
		return fmt.Sprintln(na...)
	}
	return fmt.Sprint(na...)
}

// makeError builds an error value: *fmt.wrapError when wrapping, else
// *errors.errorString.
func (i *interpreter) makeError(msg string, wrapped []value) value {
	if len(wrapped) == 0 {
		if p := i.prog.ImportedPackage("errors"); p != nil {
			if t := p.Type("errorString"); t != nil {
				v := value(structure{msg})
				return iface{t: types.NewPointer(t.Type()), v: &v}
			}
		}
		panic(engineError("errors package not loaded"))
	}
	p := i.prog.ImportedPackage("fmt")
	if p == nil {
		panic(engineError("fmt package not loaded"))
	}
	if len(wrapped) == 1 {
		t := p.Type("wrapError")
		v := value(structure{msg, wrapped[0]})
		return iface{t: types.NewPointer(t.Type()), v: &v}
	}
	t := p.Type("wrapErrors")
	errs := make([]value, len(wrapped))
	copy(errs, wrapped)
	v := value(structure{msg, errs})
	return iface{t: types.NewPointer(t.Type()), v: &v}
}

func extErrorf(fr *frame, a []value) value {
	format := strOf(a[0])
	args := a[1].([]value)
	// find %w operands
	var wrapped []value
	argi := 0
	for k := 0; k < len(format); k++ {
		if format[k] != '%' {
			continue
		}
		k++
		for k < len(format) && strings.ContainsRune("+-# 0123456789.[]*", rune(format[k])) {
			k++
		}
		if k >= len(format) {
			break
		}
		if format[k] == '%' {
			continue
		}
		if format[k] == 'w' && argi < len(args) {
			if e, ok := args[argi].(iface); ok && e.t != nil {
				wrapped = append(wrapped, e)
			}
		}
		argi++
	}
	msg := fr.i.sprintf(strings.ReplaceAll(format, "%w", "%v"), args, false)
	return fr.i.makeError(msg, wrapped)
}

// ---- errors ----

func (i *interpreter) methodOf(t types.Type, name string) *ssa.Function {
	ms := i.prog.MethodSets.MethodSet(t)
	for k := 0; k < ms.Len(); k++ {
		if ms.At(k).Obj().Name() == name {
			return i.prog.MethodValue(ms.At(k))
		}
	}
	return nil
}

func (i *interpreter) unwrap(fr *frame, e iface) []iface {
	if e.t == nil || e.t == errorType {
		return nil
	}
	if f := i.methodOf(e.t, "Unwrap"); f != nil {
		res := f.Signature.Results()
		if res.Len() == 1 {
			r := call(i, fr, token.NoPos, f, []value{e.v})
			switch r := r.(type) {
			case iface:
				if r.t != nil {
					return []iface{r}
				}
			case []value:
				var out []iface
				for _, x := range r {
					if xi, ok := x.(iface); ok && xi.t != nil {
						out = append(out, xi)
					}
				}
				return out
			}
		}
	}
	return nil
}

func (i *interpreter) errorsIs(fr *frame, err, target iface) bool {
	if err.t == nil || target.t == nil {
		return err.t == nil && target.t == nil
	}
	if sameType(err.t, target.t) && err.t != errorType && types.Comparable(err.t) {
		if i.ps.truth(i.ps.eqv(err.t, err.v, target.v)) {
			return true
		}
	}
	if err.t != errorType {
		if f := i.methodOf(err.t, "Is"); f != nil && f.Signature.Params().Len() == 1 {
			if i.ps.truth(call(i, fr, token.NoPos, f, []value{err.v, target})) {
				return true
			}
		}
	}
	for _, u := range i.unwrap(fr, err) {
		if i.errorsIs(fr, u, target) {
			return true
		}
	}
	return false
}

func extErrorsIs(fr *frame, a []value) value {
	return fr.i.errorsIs(fr, a[0].(iface), a[1].(iface))
}

func (i *interpreter) errorsAs(fr *frame, err iface, targetT types.Type, dst *value) bool {
	if err.t == nil {
		return false
	}
	if err.t != errorType {
		ok := false
		if it, isI := targetT.Underlying().(*types.Interface); isI {
			ok = types.Implements(err.t, it)
		} else {
			ok = types.Identical(err.t, targetT)
		}
		if ok {
			if _, isI := targetT.Underlying().(*types.Interface); isI {
				*dst = err
			} else {
				*dst = err.v
			}
			return true
		}
		if f := i.methodOf(err.t, "As"); f != nil && f.Signature.Params().Len() == 1 {
			if i.ps.truth(call(i, fr, token.NoPos, f, []value{err.v, iface{t: types.NewPointer(targetT), v: dst}})) {
				return true
			}
		}
	}
	for _, u := range i.unwrap(fr, err) {
		if i.errorsAs(fr, u, targetT, dst) {
			return true
		}
	}
	return false
}

func extErrorsAs(fr *frame, a []value) value {
	tgt := a[1].(iface)
	if tgt.t == nil {
		panic(targetPanic{v: rtErr("errors: target cannot be nil")})
	}
	pt, ok := tgt.t.Underlying().(*types.Pointer)
	if !ok {
		panic(targetPanic{v: rtErr("errors: target must be a non-nil pointer")})
	}
	return fr.i.errorsAs(fr, a[0].(iface), pt.Elem(), tgt.v.(*value))
}

var _ = sort.Ints
var _ = time.Now
var _ unsafe.Pointer


// extBinaryWrite models encoding/binary.Write for scalar data (including
// named integer types, which the real implementation handles by reflection).
func extBinaryWrite(fr *frame, a []value) value {
	ps := fr.i.ps
	w := a[0].(iface)
	order := a[1].(iface)
	data := a[2].(iface)
	if data.t == nil {
		panic(engineError("binary.Write(nil)"))
	}
	v := data.v
	if p, ok := data.t.Underlying().(*types.Pointer); ok {
		v = load(p.Elem(), v.(*value))
	}
	little := strings.Contains(order.t.String(), "littleEndian")
	var bytesOut []value
	switch x := v.(type) {
	case bool:
		if x {
			bytesOut = []value{uint8(1)}
		} else {
			bytesOut = []value{uint8(0)}
		}
	default:
		k, ok := valueKind(v)
		if !ok || !isIntKind(k) {
			panic(engineError(fmt.Sprintf("binary.Write of unsupported data type %v", data.t)))
		}
		t := ps.lift(v)
		n := kindWidth(k) / 8
		for b := 0; b < n; b++ {
			bt := ps.ts.Extract(t, 8*b+7, 8*b)
			bytesOut = append(bytesOut, mk(bt, types.Uint8))
		}
		if !little {
			for l, r := 0, len(bytesOut)-1; l < r; l, r = l+1, r-1 {
				bytesOut[l], bytesOut[r] = bytesOut[r], bytesOut[l]
			}
		}
	}
	wr := fr.i.methodOf(w.t, "Write")
	if wr == nil {
		panic(engineError("binary.Write: writer has no Write method"))
	}
	res := call(fr.i, fr, token.NoPos, wr, []value{w.v, bytesOut}).(tuple)
	return res[1]
}
