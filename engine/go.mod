module gosx

go 1.24.6

require (
	github.com/filecoin-project/go-keccak v0.1.0
	golang.org/x/crypto v0.47.0
	golang.org/x/tools v0.29.0
)

require (
	golang.org/x/mod v0.22.0 // indirect
	golang.org/x/sync v0.10.0 // indirect
	golang.org/x/sys v0.40.0 // indirect
)
