//go:build verif

// Package verifsym is the harness-side API of the gosx symbolic executor.
//
// Under the engine every function here is intercepted (its body is never
// interpreted).  Compiled natively, the same functions read the values of the
// symbolic inputs from the JSON file named by $VERIF_REPLAY (produced from a
// solver model), which turns every harness into an ordinary replay test.
package verifsym

import (
	"crypto/sha256"
	"encoding/hex"
	"encoding/json"
	"fmt"
	"io/fs"
	"math/big"
	"os"
	"runtime"
	"sync"
	"time"
)

type replayFile struct {
	Harness string                 `json:"harness"`
	Label   string                 `json:"label"`
	Inputs  map[string]interface{} `json:"inputs"`
}

var (
	mu       sync.Mutex
	loaded   bool
	inputs   map[string]interface{}
	counts   = map[string]int{}
	Failures []string
	Covered  = map[string]bool{}
	Trace    []string
)

func load() {
	if loaded {
		return
	}
	loaded = true
	inputs = map[string]interface{}{}
	p := os.Getenv("VERIF_REPLAY")
	if p == "" {
		return
	}
	b, err := os.ReadFile(p)
	if err != nil {
		panic("verifsym: cannot read replay file: " + err.Error())
	}
	var rf replayFile
	if err := json.Unmarshal(b, &rf); err != nil {
		panic("verifsym: bad replay file: " + err.Error())
	}
	inputs = rf.Inputs
}

// Reset clears recorded state between replays in one process.
func Reset() {
	mu.Lock()
	defer mu.Unlock()
	loaded = false
	counts = map[string]int{}
	Failures = nil
	Covered = map[string]bool{}
	Trace = nil
}

func unique(name string) string {
	n := counts[name]
	counts[name] = n + 1
	if n == 0 {
		return name
	}
	return fmt.Sprintf("%s#%d", name, n)
}

func rawU64(name string) uint64 {
	mu.Lock()
	defer mu.Unlock()
	load()
	v, ok := inputs[unique(name)]
	if !ok {
		return 0
	}
	switch v := v.(type) {
	case float64:
		return uint64(v)
	case string:
		var x uint64
		fmt.Sscanf(v, "%d", &x)
		return x
	case bool:
		if v {
			return 1
		}
	}
	return 0
}

func Bool(name string) bool     { return rawU64(name) != 0 }
func Uint8(name string) uint8   { return uint8(rawU64(name)) }
func Uint16(name string) uint16 { return uint16(rawU64(name)) }
func Uint32(name string) uint32 { return uint32(rawU64(name)) }
func Uint64(name string) uint64 { return rawU64(name) }
func Int(name string) int       { return int(rawU64(name)) }
func Int8(name string) int8     { return int8(rawU64(name)) }
func Int16(name string) int16   { return int16(rawU64(name)) }
func Int32(name string) int32   { return int32(rawU64(name)) }
func Int64(name string) int64   { return int64(rawU64(name)) }

// Bytes returns n symbolic bytes.
func Bytes(name string, n int) []byte {
	mu.Lock()
	defer mu.Unlock()
	load()
	out := make([]byte, n)
	v, ok := inputs[unique(name)]
	if !ok {
		return out
	}
	if s, ok := v.(string); ok {
		b, _ := hex.DecodeString(s)
		copy(out, b)
	}
	return out
}

// Choice returns a symbolic value in [0,k).
func Choice(name string, k int) int {
	v := Int(name)
	if v < 0 || v >= k {
		Assume(false)
	}
	return v
}

type assumeFailed struct{}

// Assume restricts the explored inputs.  Natively, a false assumption ends
// the replay (the recorded inputs did not satisfy the harness preconditions).
func Assume(c bool) {
	if !c {
		Trace = append(Trace, "assume-failed")
		panic(assumeFailed{})
	}
}

// Assert states the property.
func Assert(c bool, label string) {
	if !c {
		mu.Lock()
		Failures = append(Failures, label)
		mu.Unlock()
	}
}

// Cover marks a point that must be reachable (vacuity witness).
func Cover(label string) {
	mu.Lock()
	Covered[label] = true
	mu.Unlock()
}

// Note records an informational fact in the evidence (engine) / trace (native).
func Note(label string) {
	mu.Lock()
	Trace = append(Trace, label)
	mu.Unlock()
}

// IteU64 etc. are data-level choices: no path fork under the engine.
func IteU64(c bool, a, b uint64) uint64 {
	if c {
		return a
	}
	return b
}
func IteI64(c bool, a, b int64) int64 {
	if c {
		return a
	}
	return b
}
func IteInt(c bool, a, b int) int {
	if c {
		return a
	}
	return b
}
func IteU8(c bool, a, b uint8) uint8 {
	if c {
		return a
	}
	return b
}
func IteBool(c bool, a, b bool) bool {
	if c {
		return a
	}
	return b
}

// IteBytes chooses between two byte slices of equal length without forking.
func IteBytes(c bool, a, b []byte) []byte {
	if c {
		return append([]byte(nil), a...)
	}
	return append([]byte(nil), b...)
}

// And / Or / Implies / Not evaluate without short-circuit forks under the engine.
func And(a, b bool) bool     { return a && b }
func Or(a, b bool) bool      { return a || b }
func Implies(a, b bool) bool { return !a || b }
func Not(a bool) bool        { return !a }

// Hash is the ideal hash used by harness-side crypto models: under the engine
// an injective uninterpreted function of (domain, data) when data is symbolic;
// natively (and on concrete data) sha256 with domain and length prefixes.
func Hash(domain string, data []byte) []byte {
	h := sha256.New()
	h.Write([]byte{byte(len(domain))})
	h.Write([]byte(domain))
	var l [8]byte
	n := uint64(len(data))
	for i := 0; i < 8; i++ {
		l[i] = byte(n >> (8 * i))
	}
	h.Write(l[:])
	h.Write(data)
	return h.Sum(nil)
}

// Concrete reports whether the engine holds v as a concrete value (always true natively).
func Concrete(v uint64) bool { return true }

// Engine reports whether the code runs under the symbolic engine.
func Engine() bool { return false }

// Run executes a harness natively as a replay and reports the failed assertion labels.
func Run(f func()) (failures []string, assumeViolated bool, panicked interface{}) {
	Reset()
	done := make(chan struct{})
	go func() {
		defer close(done)
		defer func() {
			if r := recover(); r != nil {
				if _, ok := r.(assumeFailed); ok {
					assumeViolated = true
					return
				}
				buf := make([]byte, 1<<14)
				n := runtime.Stack(buf, false)
				panicked = fmt.Sprintf("%v\n%s", r, buf[:n])
			}
		}()
		f()
	}()
	// A harness that blocks for ever (e.g. a writer stuck on a full channel) is
	// reported as the failure "blocks" (the engine reports the same label when
	// the main goroutine can never run again).
	select {
	case <-done:
	case <-time.After(30 * time.Second):
		mu.Lock()
		defer mu.Unlock()
		return append(append([]string(nil), Failures...), "blocks"), false, nil
	}
	mu.Lock()
	defer mu.Unlock()
	return append([]string(nil), Failures...), assumeViolated, panicked
}

// Tier is 0 for the quick tier and 1 for the thorough tier ($VERIF_TIER natively).
func Tier() int {
	if os.Getenv("VERIF_TIER") == "thorough" || os.Getenv("VERIF_TIER") == "1" {
		return 1
	}
	return 0
}

// Observe records a value in the trace; the self-check compares the engine's
// concrete-mode trace with the natively compiled run on the same inputs.
func Observe(label string, v uint64) {
	mu.Lock()
	Trace = append(Trace, fmt.Sprintf("%s=%d", label, v))
	mu.Unlock()
}

var allocLimit int64
var allocBase uint64

// AllocLimit declares that the code that follows must not allocate a single
// object larger than n bytes (engine), natively: must not allocate more than
// n bytes in total until CheckAlloc is called.
func AllocLimit(n int64) {
	var ms runtime.MemStats
	runtime.ReadMemStats(&ms)
	allocLimit, allocBase = n, ms.TotalAlloc
}

// CheckAlloc records the failure "alloc-bound" natively when more than the
// declared limit (plus a fixed slack for bookkeeping) was allocated.
func CheckAlloc() {
	if allocLimit <= 0 {
		return
	}
	var ms runtime.MemStats
	runtime.ReadMemStats(&ms)
	if ms.TotalAlloc-allocBase > uint64(allocLimit)+(1<<20) {
		Assert(false, "alloc-bound")
	}
}

// PickU64 case-splits v here: under the engine the path forks once per
// feasible value and the concrete value is returned (so that what follows is
// computed concretely); natively it is the identity.
func PickU64(v uint64) uint64 { return v }

// BigInt returns a symbolic math/big integer of unbounded magnitude (an SMT
// Int under the engine; natively parsed from the decimal string in the replay file).
func BigInt(name string) *big.Int {
	mu.Lock()
	defer mu.Unlock()
	load()
	r := new(big.Int)
	if v, ok := inputs[unique(name)]; ok {
		switch v := v.(type) {
		case string:
			r.SetString(v, 10)
		case float64:
			r.SetInt64(int64(v))
		}
	}
	return r
}

// VFileInfo / VDirEntry are the values the engine's in-memory file-system
// model returns for fs.FileInfo / fs.DirEntry (unused natively).
type VFileInfo struct {
	N   string
	S   int64
	Dir bool
}

func (f VFileInfo) Name() string       { return f.N }
func (f VFileInfo) Size() int64        { return f.S }
func (f VFileInfo) Mode() fs.FileMode  { return 0o666 }
func (f VFileInfo) ModTime() time.Time { return time.Time{} }
func (f VFileInfo) IsDir() bool        { return f.Dir }
func (f VFileInfo) Sys() any           { return nil }

type VDirEntry struct {
	N   string
	Dir bool
}

func (d VDirEntry) Name() string               { return d.N }
func (d VDirEntry) IsDir() bool                { return d.Dir }
func (d VDirEntry) Type() fs.FileMode          { return 0 }
func (d VDirEntry) Info() (fs.FileInfo, error) { return VFileInfo{N: d.N, Dir: d.Dir}, nil }
