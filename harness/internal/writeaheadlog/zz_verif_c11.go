//go:build verif

package writeaheadlog

import (
	"fmt"
	"io"
	"os"
	"path/filepath"
	"sort"

	sym "github.com/filecoin-project/go-f3/internal/verifsym"
	cbg "github.com/whyrusleeping/cbor-gen"
)

// verifEntry: CBOR array(2){uint epoch, uint tag} through the real cbor-gen
// header codec (prefix-free like the production GMessage entries).
type verifEntry struct {
	Epoch uint64
	Tag   uint64
}

func (e *verifEntry) WALEpoch() uint64 { return e.Epoch }

func (e *verifEntry) MarshalCBOR(w io.Writer) error {
	cw := cbg.NewCborWriter(w)
	if err := cw.WriteMajorTypeHeader(cbg.MajArray, 2); err != nil {
		return err
	}
	if err := cw.WriteMajorTypeHeader(cbg.MajUnsignedInt, e.Epoch); err != nil {
		return err
	}
	return cw.WriteMajorTypeHeader(cbg.MajUnsignedInt, e.Tag)
}

func (e *verifEntry) UnmarshalCBOR(r io.Reader) error {
	cr := cbg.NewCborReader(r)
	maj, n, err := cr.ReadHeader()
	if err != nil {
		return err
	}
	if maj != cbg.MajArray || n != 2 {
		return fmt.Errorf("verifEntry: bad header")
	}
	maj, v, err := cr.ReadHeader()
	if err != nil {
		return err
	}
	if maj != cbg.MajUnsignedInt {
		return fmt.Errorf("verifEntry: bad epoch")
	}
	e.Epoch = v
	maj, v, err = cr.ReadHeader()
	if err != nil {
		if err == io.EOF {
			return io.ErrUnexpectedEOF
		}
		return err
	}
	if maj != cbg.MajUnsignedInt {
		return fmt.Errorf("verifEntry: bad tag")
	}
	e.Tag = v
	return nil
}

var _ Entry = (*verifEntry)(nil)

type verifFile struct {
	entries  []verifEntry
	closed   bool
	inflated bool // grown beyond the rotation threshold: the next append rotates
}

type verifModel struct {
	files []*verifFile
}

func (m *verifModel) active() *verifFile {
	if n := len(m.files); n > 0 && !m.files[n-1].closed {
		return m.files[n-1]
	}
	return nil
}

func (m *verifModel) closeActive() {
	if a := m.active(); a != nil {
		a.closed = true
	}
}

// newest regular file in dir (the active log file after the last rotation)
func verifNewestFile(dir string) string {
	des, err := os.ReadDir(dir)
	if err != nil || len(des) == 0 {
		return ""
	}
	var names []string
	for _, d := range des {
		names = append(names, d.Name())
	}
	sort.Strings(names)
	return filepath.Join(dir, names[len(names)-1])
}

// verifCheckAll: All() returns exactly the model's entries (each once), and
// entries of one log file keep their append order.
func verifCheckAll(wal *WriteAheadLog[verifEntry, *verifEntry], m *verifModel, when string) {
	got, err := wal.All()
	sym.Assert(err == nil, when+": All succeeds")
	if err != nil {
		return
	}
	var want []verifEntry
	for _, f := range m.files {
		want = append(want, f.entries...)
	}
	sym.Assert(len(got) == len(want), when+": exactly the acknowledged, unpurged entries are returned")
	if len(got) != len(want) {
		return
	}
	pos := map[uint64]int{}
	for i, g := range got {
		pos[g.Tag] = i
	}
	for _, f := range m.files {
		last := -1
		for _, e := range f.entries {
			p, ok := pos[e.Tag]
			sym.Assert(ok && got[p].Epoch == e.Epoch, when+": every acknowledged entry is returned intact")
			sym.Assert(p > last, when+": append order within a log file")
			last = p
		}
	}
}

// VerifC11_Histories: symbolic sequences of append / rotate / close / clean
// restart / purge(symbolic epoch) / crash with the last append torn at a
// symbolic byte offset, checked against a model after every step.
func VerifC11_Histories() {
	dir, err := os.MkdirTemp("", "verifwal")
	if err != nil {
		panic(err)
	}
	defer os.RemoveAll(dir)
	wal, err := Open[verifEntry](dir)
	sym.Assert(err == nil, "open succeeds")
	if err != nil {
		return
	}
	m := &verifModel{}
	steps := 3 + sym.Tier()
	for st := 0; st < steps; st++ {
		switch sym.Choice("op", 7) {
		case 6: // the active file grows beyond the rotation threshold (1 MiB): the next append rotates by size
			a := m.active()
			if a == nil || a.inflated {
				sym.Assume(false)
			}
			if err := os.Truncate(verifNewestFile(dir), rotateAt+1); err != nil {
				panic(err)
			}
			a.inflated = true
			sym.Cover("inflate")
		case 0: // append, acknowledged
			e := verifEntry{Epoch: uint64(sym.Uint8("epoch")), Tag: uint64(st)}
			sym.Assume(e.Epoch <= 40)
			sym.Assert(wal.Append(e) == nil, "append succeeds")
			if a := m.active(); a != nil && a.inflated {
				a.closed = true // rotated by size
				sym.Cover("size-rotation")
			}
			if m.active() == nil {
				m.files = append(m.files, &verifFile{})
			}
			a := m.active()
			a.entries = append(a.entries, e)
			sym.Cover("append")
		case 1:
			sym.Assert(wal.Rotate() == nil, "rotate succeeds")
			m.closeActive()
			sym.Cover("rotate")
		case 2:
			sym.Assert(wal.Close() == nil, "close succeeds")
			m.closeActive()
			sym.Cover("close")
		case 3: // clean restart
			_ = wal.Close()
			m.closeActive()
			wal, err = Open[verifEntry](dir)
			sym.Assert(err == nil, "reopen succeeds")
			if err != nil {
				return
			}
			sym.Cover("restart")
		case 4: // purge below a symbolic epoch
			keep := uint64(sym.Uint8("keep-epoch"))
			sym.Assume(keep <= 41)
			sym.Assert(wal.Purge(keep) == nil, "purge succeeds")
			var kept []*verifFile
			for _, f := range m.files {
				if f.closed {
					var max uint64
					for _, e := range f.entries {
						if e.Epoch > max {
							max = e.Epoch
						}
					}
					if max < keep {
						continue // every entry is below keep: the file must go
					}
				}
				kept = append(kept, f)
			}
			m.files = kept
			sym.Cover("purge")
		case 5: // crash while appending: the write is torn at a symbolic offset
			if a := m.active(); a != nil && a.inflated {
				a.closed = true // the torn append first rotates by size
			}
			active := m.active() != nil
			var before int64
			var name string
			if active {
				name = verifNewestFile(dir)
				fi, err := os.Stat(name)
				if err != nil {
					panic(err)
				}
				before = fi.Size()
			}
			e := verifEntry{Epoch: uint64(sym.Uint8("torn-epoch")), Tag: 1000 + uint64(st)}
			sym.Assume(e.Epoch <= 40)
			_ = wal.Append(e) // not acknowledged to anyone: the process dies during the write
			if !active {
				name = verifNewestFile(dir)
				m.files = append(m.files, &verifFile{})
			}
			fi, err := os.Stat(name)
			if err != nil {
				panic(err)
			}
			cut := sym.Int64("cut")
			sym.Assume(sym.And(cut >= before, cut < fi.Size()))
			if err := os.Truncate(name, cut); err != nil {
				panic(err)
			}
			m.closeActive()
			wal, err = Open[verifEntry](dir) // restart after the crash
			sym.Assert(err == nil, "reopen after crash succeeds")
			if err != nil {
				return
			}
			sym.Cover("torn-crash")
		}
		verifCheckAll(wal, m, "after step")
	}
}

// VerifC11_SizeRotationPurge: the size-driven rotation path in depth: entries
// with symbolic epochs are appended around a rotation forced by the active
// file exceeding 1 MiB, the log is closed/rotated or not, and purged below a
// symbolic epoch; the result is compared with the model.
func VerifC11_SizeRotationPurge() {
	dir, err := os.MkdirTemp("", "verifwal")
	if err != nil {
		panic(err)
	}
	defer os.RemoveAll(dir)
	wal, err := Open[verifEntry](dir)
	if err != nil {
		panic(err)
	}
	m := &verifModel{}
	ep := func(tag string) uint64 {
		e := uint64(sym.Uint8(tag))
		sym.Assume(e <= 40)
		return e
	}
	app := func(e verifEntry) {
		sym.Assert(wal.Append(e) == nil, "append succeeds")
		if a := m.active(); a != nil && a.inflated {
			a.closed = true
		}
		if m.active() == nil {
			m.files = append(m.files, &verifFile{})
		}
		a := m.active()
		a.entries = append(a.entries, e)
	}
	app(verifEntry{Epoch: ep("e1"), Tag: 1})
	if err := os.Truncate(verifNewestFile(dir), rotateAt+1); err != nil {
		panic(err)
	}
	m.active().inflated = true
	app(verifEntry{Epoch: ep("e2"), Tag: 2}) // rotates by size
	sym.Cover("size-rotation")
	if sym.Bool("third-append") {
		app(verifEntry{Epoch: ep("e3"), Tag: 3})
	}
	verifCheckAll(wal, m, "after size rotation")
	switch sym.Choice("then", 3) {
	case 0:
		sym.Assert(wal.Close() == nil, "close succeeds")
		m.closeActive()
	case 1:
		sym.Assert(wal.Rotate() == nil, "rotate succeeds")
		m.closeActive()
	}
	keep := uint64(sym.Uint8("keep-epoch"))
	sym.Assume(keep <= 41)
	sym.Assert(wal.Purge(keep) == nil, "purge succeeds")
	var kept []*verifFile
	for _, f := range m.files {
		if f.closed {
			var max uint64
			for _, e := range f.entries {
				if e.Epoch > max {
					max = e.Epoch
				}
			}
			if max < keep {
				continue
			}
		}
		kept = append(kept, f)
	}
	m.files = kept
	sym.Cover("purged")
	verifCheckAll(wal, m, "after purge")
	// and the same after a restart
	_ = wal.Close()
	m.closeActive()
	wal, err = Open[verifEntry](dir)
	sym.Assert(err == nil, "reopen succeeds")
	if err == nil {
		verifCheckAll(wal, m, "after purge and restart")
	}
}

// verifBigEntry: CBOR array(2){uint epoch, bytes padding}: an entry of chosen size.
type verifBigEntry struct {
	Epoch uint64
	Pad   int
}

func (e *verifBigEntry) WALEpoch() uint64 { return e.Epoch }

func (e *verifBigEntry) MarshalCBOR(w io.Writer) error {
	cw := cbg.NewCborWriter(w)
	if err := cw.WriteMajorTypeHeader(cbg.MajArray, 2); err != nil {
		return err
	}
	if err := cw.WriteMajorTypeHeader(cbg.MajUnsignedInt, e.Epoch); err != nil {
		return err
	}
	if err := cw.WriteMajorTypeHeader(cbg.MajByteString, uint64(e.Pad)); err != nil {
		return err
	}
	_, err := cw.Write(make([]byte, e.Pad))
	return err
}

func (e *verifBigEntry) UnmarshalCBOR(r io.Reader) error {
	cr := cbg.NewCborReader(r)
	maj, n, err := cr.ReadHeader()
	if err != nil {
		return err
	}
	if maj != cbg.MajArray || n != 2 {
		return fmt.Errorf("verifBigEntry: bad header")
	}
	maj, v, err := cr.ReadHeader()
	if err != nil {
		return err
	}
	if maj != cbg.MajUnsignedInt {
		return fmt.Errorf("verifBigEntry: bad epoch")
	}
	e.Epoch = v
	maj, v, err = cr.ReadHeader()
	if err != nil {
		if err == io.EOF {
			return io.ErrUnexpectedEOF
		}
		return err
	}
	if maj != cbg.MajByteString || v > 2<<20 {
		return fmt.Errorf("verifBigEntry: bad padding")
	}
	buf := make([]byte, v)
	if _, err := io.ReadFull(cr, buf); err != nil {
		if err == io.EOF {
			return io.ErrUnexpectedEOF
		}
		return err
	}
	e.Pad = int(v)
	return nil
}

var _ Entry = (*verifBigEntry)(nil)

// VerifC11_EntryAcrossTheRotationMark: a log file filled with real entries up
// to just below, exactly at, or just beyond the 1 MiB rotation mark, then one
// more small entry (which straddles the mark, starts right at it, or goes to
// a new file after a size rotation): every acknowledged entry is returned
// intact, in the same process and after a restart.
func VerifC11_EntryAcrossTheRotationMark() {
	dir, err := os.MkdirTemp("", "verifwal")
	if err != nil {
		panic(err)
	}
	defer os.RemoveAll(dir)
	wal, err := Open[verifBigEntry](dir)
	if err != nil {
		panic(err)
	}
	// the first entry takes 1 (array) + 1 (epoch) + 5 (byte string header) + pad bytes
	first := verifBigEntry{Epoch: 3, Pad: rotateAt - 7 + []int{-4, 0, 1}[sym.Choice("first-file-size", 3)]}
	second := verifBigEntry{Epoch: 5, Pad: 6} // 9 bytes
	sym.Assert(wal.Append(first) == nil && wal.Append(second) == nil, "appends succeed")
	check := func(when string) {
		got, err := wal.All()
		sym.Assert(err == nil, when+": read succeeds")
		sym.Assert(len(got) == 2 && got[0].Epoch == 3 && got[0].Pad == first.Pad && got[1].Epoch == 5 && got[1].Pad == 6, when+": every acknowledged entry is returned intact")
	}
	sym.Cover("appended")
	check("same process")
	sym.Assert(wal.Close() == nil, "close succeeds")
	wal, err = Open[verifBigEntry](dir)
	sym.Assert(err == nil, "reopen succeeds")
	if err != nil {
		return
	}
	check("after restart")
	// nothing at or above the purge epoch is lost
	sym.Assert(wal.Purge(5) == nil, "purge succeeds")
	got, err := wal.All()
	found := false
	for _, e := range got {
		found = found || e.Epoch == 5
	}
	sym.Assert(err == nil && found, "after purge: the entry at the purge epoch is kept")
}
