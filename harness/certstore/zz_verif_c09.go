//go:build verif

package certstore

import (
	"context"
	"errors"

	"github.com/filecoin-project/go-f3/certs"
	"github.com/filecoin-project/go-f3/gpbft"
	sym "github.com/filecoin-project/go-f3/internal/verifsym"
)

// reference model (Appendix A.4 of DESIGN.md)
type verifRef struct {
	first  uint64
	tables []gpbft.PowerEntries // tables[k] validates instance first+k
	certs  []*certs.FinalityCertificate
}

func (r *verifRef) next() uint64 { return r.first + uint64(len(r.certs)) }

// committee evolution used by the harness: table k -> table k+1
func verifTableSeq(k int) gpbft.PowerEntries {
	switch k % 4 {
	case 0:
		return verifTable(5, 3, 2)
	case 1:
		return verifTable(5, 3, 2, 7) // member added
	case 2:
		return verifTable(5, 0, 2, 7) // member removed
	default:
		return verifTable(5, 0, 9, 7) // member re-weighted
	}
}

// VerifC09_PutGetModel: a symbolic sequence of puts (valid successor, duplicate,
// stale, gap, wrong delta, bottom chain, emptying delta) against a reference
// model; after every step all observables are compared; finally the store is
// reopened and compared again.
func VerifC09_PutGetModel() {
	ctx := context.Background()
	ds := newVerifDS()
	first, freq := verifParams(uint8(1 + 2*sym.Tier()))
	nops := 3 + sym.Tier()

	cs, err := CreateStore(ctx, ds, first, verifTableSeq(0))
	sym.Assert(err == nil, "create-succeeds")
	if err != nil {
		return
	}
	verifSetFreq(cs, freq)
	ref := &verifRef{first: first, tables: []gpbft.PowerEntries{verifTableSeq(0)}}
	verifCompare(ctx, cs, ref, "after-create")

	for op := 0; op < nops; op++ {
		k := len(ref.certs)
		nextI := ref.next()
		good := verifCert(nextI, int64(10*k), 2, ref.tables[k], verifTableSeq(k+1))
		switch sym.Choice("op", 8) {
		case 7: // valid successor that leaves the table unchanged (empty delta)
			sym.Cover("put-successor-same-table")
			same := verifCert(nextI, int64(10*k), 2, ref.tables[k], ref.tables[k])
			err := cs.Put(ctx, same)
			sym.Assert(err == nil && len(same.PowerTableDelta) == 0, "successor-with-unchanged-table-admitted")
			ref.certs = append(ref.certs, same)
			ref.tables = append(ref.tables, ref.tables[k])
		case 0: // valid successor
			sym.Cover("put-successor")
			err := cs.Put(ctx, good)
			sym.Assert(err == nil, "successor-admitted")
			ref.certs = append(ref.certs, good)
			ref.tables = append(ref.tables, verifTableSeq(k+1))
		case 1: // duplicate / stale: any stored instance, different content
			if k == 0 {
				sym.Assume(false)
			}
			sym.Cover("put-stale")
			j := sym.Choice("stale", k)
			other := verifCert(ref.first+uint64(j), 77, 1, ref.tables[j], verifTableSeq(j+2))
			err := cs.Put(ctx, other)
			sym.Assert(err == nil, "stale-put-is-noop-nil")
		case 2: // gap
			sym.Cover("put-gap")
			gap := verifCert(nextI+1+uint64(sym.Choice("gap", 3)), int64(10*k), 2, ref.tables[k], verifTableSeq(k+1))
			sym.Assume(gap.GPBFTInstance > nextI)
			err := cs.Put(ctx, gap)
			sym.Assert(err != nil, "gap-rejected")
		case 3: // wrong delta / CID mismatch
			sym.Cover("put-wrong-delta")
			bad := verifCert(nextI, int64(10*k), 2, ref.tables[k], verifTableSeq(k+1))
			switch sym.Choice("mismatch", 4) {
			case 0: // delta leads to another table than the committed one
				bad.PowerTableDelta = certs.MakePowerTableDiff(ref.tables[k], verifTableSeq(k+2))
			case 1: // no delta, but a changed table committed
				bad.PowerTableDelta = nil
			case 2: // right delta, another table committed
				bad.SupplementalData.PowerTable, _ = certs.MakePowerTableCID(verifTableSeq(k + 2))
			default: // a delta, but the unchanged table committed
				bad.SupplementalData.PowerTable, _ = certs.MakePowerTableCID(ref.tables[k])
			}
			err := cs.Put(ctx, bad)
			sym.Assert(err != nil, "wrong-delta-rejected")
		case 4: // bottom chain
			sym.Cover("put-bottom")
			bad := verifCert(nextI, int64(10*k), 2, ref.tables[k], verifTableSeq(k+1))
			bad.ECChain = &gpbft.ECChain{}
			err := cs.Put(ctx, bad)
			sym.Assert(err != nil, "bottom-rejected")
		case 5: // delta emptying the table (CID of the empty table committed)
			sym.Cover("put-emptying")
			bad := verifCert(nextI, int64(10*k), 2, ref.tables[k], gpbft.PowerEntries{})
			err := cs.Put(ctx, bad)
			sym.Assert(err != nil, "emptying-rejected")
		case 6: // before the first instance
			if first == 0 {
				sym.Assume(false)
			}
			sym.Cover("put-before-first")
			bad := verifCert(first-1, 3, 1, ref.tables[0], verifTableSeq(1))
			err := cs.Put(ctx, bad)
			sym.Assert(err != nil, "before-first-rejected")
		}
		verifCompare(ctx, cs, ref, "after-op")
	}

	// reopen with both variants and compare again
	cs2, err := OpenStore(ctx, ds)
	sym.Assert(err == nil, "reopen-succeeds")
	if err == nil {
		verifSetFreq(cs2, freq)
		verifCompare(ctx, cs2, ref, "after-reopen")
	}
	cs3, err := OpenOrCreateStore(ctx, ds, first, verifTableSeq(0))
	sym.Assert(err == nil, "open-or-create-succeeds")
	if err == nil {
		verifSetFreq(cs3, freq)
		verifCompare(ctx, cs3, ref, "after-open-or-create")
	}
	_, err = OpenOrCreateStore(ctx, ds, first+1, verifTableSeq(0))
	sym.Assert(err != nil, "open-or-create-other-first-rejected")
	_, err = OpenOrCreateStore(ctx, ds, first, verifTableSeq(1))
	sym.Assert(err != nil, "open-or-create-other-table-rejected")
	_, err = CreateStore(ctx, ds, first, verifTableSeq(0))
	sym.Assert(err != nil, "create-twice-rejected")
}

func verifCompare(ctx context.Context, cs *Store, ref *verifRef, when string) {
	n := len(ref.certs)
	latest := cs.Latest()
	if n == 0 {
		sym.Assert(latest == nil, when+":latest-nil")
	} else {
		sym.Assert(latest != nil && verifCertEq(latest, ref.certs[n-1]), when+":latest")
	}
	// every instance in a window around the stored range
	lo := ref.first
	if lo > 0 {
		lo--
	}
	for i := lo; i <= ref.next()+1; i++ {
		c, err := cs.Get(ctx, i)
		if i >= ref.first && i < ref.next() {
			sym.Assert(err == nil && verifCertEq(c, ref.certs[i-ref.first]), when+":get-stored")
		} else {
			sym.Assert(errors.Is(err, ErrCertNotFound), when+":get-missing")
		}
		pt, err := cs.GetPowerTable(ctx, i)
		if i >= ref.first && i <= ref.next() {
			sym.Assert(err == nil && pt.Equal(ref.tables[i-ref.first]), when+":power-table")
		} else {
			sym.Assert(err != nil, when+":power-table-out-of-range")
		}
	}
	// range reads
	if n > 0 {
		cr, err := cs.GetRange(ctx, ref.first, ref.next()-1)
		ok := err == nil && len(cr) == n
		for j := 0; ok && j < n; j++ {
			ok = verifCertEq(&cr[j], ref.certs[j])
		}
		sym.Assert(ok, when+":range-all")
		cr, err = cs.GetRange(ctx, ref.first, ref.next())
		sym.Assert(errors.Is(err, ErrCertNotFound) && len(cr) == n, when+":range-past-end")
	}
}

// VerifC09_Subscribers: subscriptions follow the latest certificate and never
// block the writer: after every operation of every sequence (subscribe, put a
// successor, put a stale certificate, read, unsubscribe; two subscriber
// slots) a live subscriber that has not read since the last admission finds
// exactly the latest certificate waiting (nothing if none was admitted since
// it read), whether or not it ever reads; Put never blocks and never panics
// after an unsubscribe.
func VerifC09_Subscribers() {
	ctx := context.Background()
	first := uint64(sym.Choice("first", 2))
	cs, err := CreateStore(ctx, newVerifDS(), first, verifTableSeq(0))
	sym.Assume(err == nil)
	cs.powerTableFrequency = 2
	type sub struct {
		ch      <-chan *certs.FinalityCertificate
		closer  func()
		live    bool
		pending *certs.FinalityCertificate // what must be waiting in the channel
	}
	var subs [2]sub
	var latest *certs.FinalityCertificate
	tables := []gpbft.PowerEntries{verifTableSeq(0)}
	k := 0
	steps := 4 + sym.Tier()
	for st := 0; st < steps; st++ {
		op := sym.Choice("op", 5)
		i := 0
		if op != 1 && op != 2 {
			i = sym.Choice("subscriber", 2)
		}
		switch op {
		case 0: // subscribe
			if subs[i].live {
				sym.Assume(false)
			}
			ch, closer := cs.Subscribe()
			subs[i] = sub{ch: ch, closer: closer, live: true, pending: latest}
			sym.Cover("subscribed")
		case 1: // put the successor
			c := verifCert(first+uint64(k), int64(10*k), 2, tables[k], verifTableSeq(k+1))
			sym.Assert(cs.Put(ctx, c) == nil, "successor-admitted")
			tables = append(tables, verifTableSeq(k+1))
			k++
			latest = c
			for j := range subs {
				if subs[j].live {
					subs[j].pending = c
				}
			}
			sym.Cover("put")
		case 2: // stale put: no notification
			if k == 0 {
				sym.Assume(false)
			}
			sym.Assert(cs.Put(ctx, verifCert(first, 77, 1, tables[0], verifTableSeq(2))) == nil, "stale-put-is-noop-nil")
		case 3: // the subscriber reads
			if !subs[i].live || subs[i].pending == nil {
				sym.Assume(false)
			}
			select {
			case got := <-subs[i].ch:
				sym.Assert(got != nil && verifCertEq(got, subs[i].pending), "subscriber-reads-the-latest-certificate")
			default:
				sym.Assert(false, "subscriber-finds-a-certificate-waiting")
			}
			subs[i].pending = nil
			sym.Cover("read")
		default: // unsubscribe
			if !subs[i].live {
				sym.Assume(false)
			}
			subs[i].closer()
			subs[i].closer() // idempotent
			subs[i].live = false
			sym.Cover("unsubscribed")
		}
		for j := range subs {
			if subs[j].live {
				want := 0
				if subs[j].pending != nil {
					want = 1
				}
				sym.Assert(len(subs[j].ch) == want, "channel-holds-exactly-the-unread-latest-certificate")
			}
		}
	}
}

// VerifC09_LongHistory: a history longer than any internal batch or
// pre-allocation size (1024..1030 certificates after the last power-table
// checkpoint, real checkpoint frequency 1440): range reads return exactly the
// stored certificates (and report the first missing one), the power table of
// the next instance is derivable, and the store reopens.
func VerifC09_LongHistory() {
	ctx := context.Background()
	ds := newVerifDS()
	cs, err := CreateStore(ctx, ds, 0, verifTableSeq(0))
	sym.Assume(err == nil)
	n := 1024 + 6*sym.Choice("length-class", 2) // 1024 or 1030
	tables := []gpbft.PowerEntries{verifTableSeq(0)}
	var first, last *certs.FinalityCertificate
	for j := 0; j < n; j++ {
		next := tables[j]
		if j == 1 {
			next = verifTableSeq(1) // one committee change early on
		}
		c := verifCert(uint64(j), int64(10+2*j), 1, tables[j], next)
		if err := cs.Put(ctx, c); err != nil {
			sym.Assert(false, "long-history-put-succeeds")
			return
		}
		tables = append(tables, next)
		if j == 0 {
			first = c
		}
		last = c
	}
	sym.Cover("stored")
	check := func(cs *Store, when string) {
		all, err := cs.GetRange(ctx, 0, uint64(n-1))
		sym.Assert(err == nil && len(all) == n && verifCertEq(&all[0], first) && verifCertEq(&all[n-1], last), when+":range-returns-exactly-the-stored-certificates")
		more, err := cs.GetRange(ctx, 0, uint64(n+70))
		sym.Assert(errors.Is(err, ErrCertNotFound) && len(more) == n, when+":range-past-the-end-reports-the-first-missing-certificate")
		pt, err := cs.GetPowerTable(ctx, uint64(n))
		sym.Assert(err == nil && pt.Equal(tables[n]), when+":power-table-of-the-next-instance-derivable")
		pt, err = cs.GetPowerTable(ctx, uint64(n-3))
		sym.Assert(err == nil && pt.Equal(tables[n-3]), when+":power-table-inside-the-history-derivable")
		l := cs.Latest()
		sym.Assert(l != nil && verifCertEq(l, last), when+":latest")
	}
	check(cs, "live")
	cs2, err := OpenStore(ctx, ds)
	sym.Assert(err == nil, "long-history-reopens")
	if err == nil {
		check(cs2, "reopened")
	}
}
