//go:build verif

package certstore

import (
	"bytes"
	"context"
	"encoding/binary"

	"github.com/filecoin-project/go-f3/certs"
	"github.com/filecoin-project/go-f3/gpbft"
	"github.com/filecoin-project/go-f3/manifest"
	sym "github.com/filecoin-project/go-f3/internal/verifsym"
	"github.com/multiformats/go-multihash"
	"golang.org/x/crypto/blake2b"
)

// verifExporter builds a store with k certificates and returns it with its model.
func verifExporter(ctx context.Context, first uint64, freq uint64, k int) (*Store, *verifRef) {
	return verifExporterQuiet(ctx, first, freq, k, k)
}

// verifExporterQuiet: certificates with index >= quietFrom leave the power
// table unchanged (empty delta).
func verifExporterQuiet(ctx context.Context, first uint64, freq uint64, k int, quietFrom int) (*Store, *verifRef) {
	mask := uint(0)
	for j := quietFrom; j < k; j++ {
		mask |= 1 << uint(j)
	}
	return verifExporterMask(ctx, first, freq, k, mask)
}

// verifExporterMask: certificate j leaves the power table unchanged iff bit j of quiet is set.
func verifExporterMask(ctx context.Context, first uint64, freq uint64, k int, quiet uint) (*Store, *verifRef) {
	ds := newVerifDS()
	cs, err := CreateStore(ctx, ds, first, verifTableSeq(0))
	sym.Assume(err == nil)
	verifSetFreq(cs, freq)
	ref := &verifRef{first: first, tables: []gpbft.PowerEntries{verifTableSeq(0)}}
	changes := 0
	for j := 0; j < k; j++ {
		next := ref.tables[j]
		if quiet&(1<<uint(j)) == 0 {
			changes++
			next = verifTableSeq(changes)
		}
		c := verifCert(ref.next(), int64(10*j), 2, ref.tables[j], next)
		sym.Assume(cs.Put(ctx, c) == nil)
		ref.certs = append(ref.certs, c)
		ref.tables = append(ref.tables, next)
	}
	return cs, ref
}

func verifSplitBlocks(data []byte) [][]byte {
	var blocks [][]byte
	r := bytes.NewReader(data)
	for r.Len() > 0 {
		start := len(data) - r.Len()
		b, err := readSnapshotBlockBytes(r)
		if err != nil {
			panic("verif: exported snapshot does not parse: " + err.Error())
		}
		_ = b
		blocks = append(blocks, data[start:len(data)-r.Len()])
	}
	return blocks
}

// VerifC17_RoundTrip: export at every end point, import into an empty
// datastore, reopen: observationally identical up to the end point; digest
// equals blake2b-256 of exactly the exported bytes.
func VerifC17_RoundTrip() {
	ctx := context.Background()
	// either a small testing frequency, or the real default frequency (never
	// overridden, so import and reopen run with it) with the history crossing a
	// checkpoint multiple
	first, freq := verifParams(2)
	if freq == 3 || first == 0 {
		sym.Assume(false)
	}
	k := 1 + sym.Choice("certs-minus-1", 2+sym.Tier())
	cs, ref := verifExporter(ctx, first, freq, k)
	end := sym.Choice("export-end", k) // export up to certificate index end
	var buf bytes.Buffer
	c, hdr, err := cs.ExportSnapshot(ctx, first+uint64(end), &buf)
	sym.Assert(err == nil, "export-succeeds")
	if err != nil {
		return
	}
	sym.Cover("exported")
	sym.Assert(hdr.FirstInstance == first && hdr.LatestInstance == first+uint64(end), "header-range")
	sum := blake2b.Sum256(buf.Bytes())
	mh, _ := multihash.Encode(sum[:], multihash.BLAKE2B_MIN+31)
	sym.Assert(bytes.Equal(c.Hash(), mh), "digest-matches-bytes")

	dst := newVerifDS()
	var m *manifest.Manifest
	if sym.Bool("with-manifest") {
		ptCid, _ := certsMakeCID(verifTableSeq(0))
		m = &manifest.Manifest{InitialInstance: first, InitialPowerTable: ptCid}
	}
	err = importSnapshotToDatastoreWithTestingPowerTableFrequency(ctx, bytes.NewReader(buf.Bytes()), dst, m, freq)
	sym.Assert(err == nil, "import-succeeds")
	if err != nil {
		return
	}
	cs2, err := OpenStore(ctx, dst)
	sym.Assert(err == nil, "open-imported")
	if err != nil {
		return
	}
	verifSetFreq(cs2, freq)
	sym.Cover("imported")
	upTo := &verifRef{first: first, tables: ref.tables[:end+2], certs: ref.certs[:end+1]}
	verifCompare(ctx, cs2, upTo, "imported")
}

// VerifC17_Malformed: block-level and header-level corruptions must be rejected.
func VerifC17_Malformed() {
	ctx := context.Background()
	first := uint64(2)
	freq := 1 + uint64(sym.Choice("freq-minus-1", 4)) // checkpoints after each, every 2nd, ... 4th instance
	k := 3
	// the last 0..2 certificates may leave the power table unchanged
	// which certificates leave the power table unchanged: none, the last, the last two, the first, the first two
	quiet := []uint{0, 4, 6, 1, 3}[sym.Choice("quiet-pattern", 5)]
	cs, ref := verifExporterMask(ctx, first, freq, k, quiet)
	var buf bytes.Buffer
	_, hdr, err := cs.ExportSnapshot(ctx, first+uint64(k-1), &buf)
	sym.Assume(err == nil)
	blocks := verifSplitBlocks(buf.Bytes()) // header, cert0, cert1, cert2
	rehdr := func(h SnapshotHeader) []byte {
		var b bytes.Buffer
		_, _ = h.WriteTo(&b)
		return b.Bytes()
	}
	var m *manifest.Manifest
	var out [][]byte
	switch sym.Choice("corruption", 14) {
	case 12:
		sym.Cover("drop-first")
		out = [][]byte{blocks[0], blocks[2], blocks[3]}
	case 13:
		sym.Cover("drop-first-two")
		out = [][]byte{blocks[0], blocks[3]}
	case 11:
		// one certificate's delta replaced by another (its commitment kept): the
		// tables derived from then on differ from what the certificates commit to
		sym.Cover("tampered-delta")
		j := sym.Choice("tampered-certificate", k)
		bad := *ref.certs[j]
		// a table of the sequence that is neither the current one nor the genuine successor
		wrong := verifTableSeq(0)
		for t := 1; wrong.Equal(ref.tables[j]) || wrong.Equal(ref.tables[j+1]); t++ {
			wrong = verifTableSeq(t)
		}
		bad.PowerTableDelta = certs.MakePowerTableDiff(ref.tables[j], wrong)
		var b bytes.Buffer
		_, _ = writeSnapshotCborEncodedBlock(&b, &bad)
		out = [][]byte{blocks[0], blocks[1], blocks[2], blocks[3]}
		out[j+1] = b.Bytes()
	case 0:
		sym.Cover("drop-middle")
		out = [][]byte{blocks[0], blocks[1], blocks[3]}
	case 1:
		sym.Cover("drop-last")
		out = [][]byte{blocks[0], blocks[1], blocks[2]}
	case 2:
		sym.Cover("duplicate")
		out = [][]byte{blocks[0], blocks[1], blocks[1], blocks[2], blocks[3]}
	case 3:
		sym.Cover("swap")
		out = [][]byte{blocks[0], blocks[2], blocks[1], blocks[3]}
	case 4:
		sym.Cover("surplus")
		extra := verifCert(first+uint64(k), 30, 2, verifTableSeq(k), verifTableSeq(k+1))
		var b bytes.Buffer
		_, _ = writeSnapshotCborEncodedBlock(&b, extra)
		out = [][]byte{blocks[0], blocks[1], blocks[2], blocks[3], b.Bytes()}
	case 5:
		sym.Cover("header-first-shifted")
		h := *hdr
		h.FirstInstance++
		out = [][]byte{rehdr(h), blocks[1], blocks[2], blocks[3]}
	case 6:
		sym.Cover("header-latest-larger")
		h := *hdr
		h.LatestInstance++
		out = [][]byte{rehdr(h), blocks[1], blocks[2], blocks[3]}
	case 7:
		sym.Cover("header-latest-smaller")
		h := *hdr
		h.LatestInstance--
		out = [][]byte{rehdr(h), blocks[1], blocks[2], blocks[3]}
	case 8:
		sym.Cover("manifest-initial-instance")
		m = &manifest.Manifest{InitialInstance: first + 1}
		out = blocks
	case 9:
		sym.Cover("manifest-power-table")
		ptCid, _ := certsMakeCID(verifTableSeq(1))
		m = &manifest.Manifest{InitialInstance: first, InitialPowerTable: ptCid}
		out = blocks
	case 10:
		sym.Cover("header-wrong-initial-table")
		h := *hdr
		h.InitialPowerTable = verifTableSeq(2)
		out = [][]byte{rehdr(h), blocks[1], blocks[2], blocks[3]}
	}
	data := bytes.Join(out, nil)
	err = importSnapshotToDatastoreWithTestingPowerTableFrequency(ctx, bytes.NewReader(data), newVerifDS(), m, freq)
	sym.Assert(err != nil, "malformed-snapshot-rejected")
}

// VerifC17_Truncated: the snapshot cut at any byte offset is rejected.
func VerifC17_Truncated() {
	ctx := context.Background()
	cs, _ := verifExporter(ctx, 1, 2, 2)
	var buf bytes.Buffer
	_, _, err := cs.ExportSnapshot(ctx, 2, &buf)
	sym.Assume(err == nil)
	data := buf.Bytes()
	cut := sym.Int("cut")
	sym.Assume(sym.And(cut >= 0, cut < len(data)))
	sym.Cover("truncated")
	err = importSnapshotToDatastoreWithTestingPowerTableFrequency(ctx, bytes.NewReader(data[:cut]), newVerifDS(), nil, 2)
	sym.Assert(err != nil, "truncated-snapshot-rejected")
}

// VerifC17_HostileLength: the varint length prefix of the first block replaced
// by arbitrary bytes: import returns an error, never panics.
func VerifC17_HostileLength() {
	ctx := context.Background()
	cs, _ := verifExporter(ctx, 1, 2, 1)
	var buf bytes.Buffer
	_, _, err := cs.ExportSnapshot(ctx, 1, &buf)
	sym.Assume(err == nil)
	data := buf.Bytes()
	_, n := binary.Uvarint(data)
	// quick: prefix lengths 1, 2, 9, 10; thorough: every length 1..10
	npre := 1 + sym.Choice("prefix-len-minus-1", 10)
	if sym.Tier() == 0 && npre > 2 && npre < 9 {
		sym.Assume(false)
	}
	pre := sym.Bytes("prefix", npre)
	// Stated bound: the decoded hostile length is tiny (0..2), within one of the
	// true block length, or huge (>= 2^23, up to 2^64-1); other lengths are
	// outside the claim (the engine needs concrete slice lengths).
	// the prefix is one complete varint (continuation bits set on all but the
	// last byte), so no hostile byte leaks into the CBOR decoder (that is C14's subject)
	for i := 0; i < npre-1; i++ {
		sym.Assume(pre[i] >= 0x80)
	}
	sym.Assume(pre[npre-1] < 0x80)
	hv, hn := binary.Uvarint(pre)
	trueLen := uint64(len(data[n:]) - len(verifRest(data, n)))
	if hn > 0 {
		sym.Assume(sym.Or(hv <= 2, sym.Or(hv >= 1<<23, sym.And(hv+1 >= trueLen, hv <= trueLen+1))))
	}
	hostile := append(append([]byte{}, pre...), data[n:]...)
	sym.Cover("hostile-prefix")
	panicked := false
	func() {
		defer func() {
			if r := recover(); r != nil {
				panicked = true
			}
		}()
		err = importSnapshotToDatastoreWithTestingPowerTableFrequency(ctx, bytes.NewReader(hostile), newVerifDS(), nil, 2)
	}()
	sym.Assert(!panicked, "KNOWN:c17-hostile-length-panics:import of a snapshot with a hostile block length returns an error instead of panicking")
	if panicked {
		return
	}
	// a prefix that happens to encode the right length is fine; anything else must be an error
	v, vn := binary.Uvarint(pre)
	if vn == npre && int(v) == len(data[n:])-len(verifRest(data, n)) {
		return
	}
	sym.Assert(err != nil, "KNOWN:c17-hostile-length-panics:hostile length rejected with an error")
}

// verifRest returns the bytes after the first block.
func verifRest(data []byte, n int) []byte {
	v, _ := binary.Uvarint(data)
	return data[n+int(v):]
}

func certsMakeCID(pt gpbft.PowerEntries) (c gpbftCid, err error) { return makePowerTableCID(pt) }
