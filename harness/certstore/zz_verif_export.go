//go:build verif

package certstore

import (
	"context"

	"github.com/filecoin-project/go-f3/certs"
	"github.com/filecoin-project/go-f3/gpbft"
	"github.com/ipfs/go-datastore"
)

// VerifNewStore (harness helper for other packages): a store over the
// in-memory datastore model holding k valid certificates starting at first.
func VerifNewStore(first uint64, k int) (*Store, []*certs.FinalityCertificate, []gpbft.PowerEntries, datastore.Batching) {
	ctx := context.Background()
	ds := newVerifDS()
	cs, err := CreateStore(ctx, ds, first, verifTableSeq(0))
	if err != nil {
		panic(err)
	}
	cs.powerTableFrequency = 2
	tables := []gpbft.PowerEntries{verifTableSeq(0)}
	var cl []*certs.FinalityCertificate
	for j := 0; j < k; j++ {
		c := verifCert(first+uint64(j), int64(10*j), 2, tables[j], verifTableSeq(j+1))
		if err := cs.Put(ctx, c); err != nil {
			panic(err)
		}
		cl = append(cl, c)
		tables = append(tables, verifTableSeq(j+1))
	}
	return cs, cl, tables, ds
}

// VerifCert builds the j-th certificate of the harness universe for instance i.
func VerifCert(instance uint64, j int) *certs.FinalityCertificate {
	return verifCert(instance, int64(10*j), 2, verifTableSeq(j), verifTableSeq(j+1))
}

func VerifTable(j int) gpbft.PowerEntries { return verifTableSeq(j) }

func VerifCertEq(a, b *certs.FinalityCertificate) bool { return verifCertEq(a, b) }

// VerifNewStoreWith: a store over the in-memory datastore model created at
// `first` with the given initial table and holding the given certificates.
func VerifNewStoreWith(first uint64, initial gpbft.PowerEntries, cl ...*certs.FinalityCertificate) *Store {
	ctx := context.Background()
	cs, err := CreateStore(ctx, newVerifDS(), first, initial)
	if err != nil {
		panic(err)
	}
	cs.powerTableFrequency = 2
	for _, c := range cl {
		if err := cs.Put(ctx, c); err != nil {
			panic(err)
		}
	}
	return cs
}
