//go:build verif

package certstore

import (
	"context"
	"errors"

	"github.com/filecoin-project/go-f3/gpbft"
	sym "github.com/filecoin-project/go-f3/internal/verifsym"
)

// verifReopen reopens the store with a symbolically chosen open variant.
func verifReopen(ctx context.Context, ds *verifDS, first uint64, freq uint64) (*Store, error) {
	var cs *Store
	var err error
	if sym.Bool("reopen-with-open-or-create") {
		cs, err = OpenOrCreateStore(ctx, ds, first, verifTableSeq(0))
	} else {
		cs, err = OpenStore(ctx, ds)
	}
	if cs != nil {
		verifSetFreq(cs, freq)
	}
	return cs, err
}

// verifConsistent: the reopened store equals the reference model ref on every
// observable up to its latest certificate.
func verifConsistent(ctx context.Context, cs *Store, ref *verifRef, when string) {
	verifCompare(ctx, cs, ref, when)
}

// VerifC10_CrashPut: history of k puts, then one more put interrupted after a
// symbolic number of datastore writes; restart; reopen (either variant).
// The store must equal the model before or after the interrupted put, and
// repeating the put must succeed and give the after-state.
func VerifC10_CrashPut() {
	ctx := context.Background()
	ds := newVerifDS()
	first, freq := verifParams(2)
	cs, err := CreateStore(ctx, ds, first, verifTableSeq(0))
	sym.Assume(err == nil)
	verifSetFreq(cs, freq)
	ref := &verifRef{first: first, tables: []gpbft.PowerEntries{verifTableSeq(0)}}
	k := sym.Choice("history", 3)
	for j := 0; j < k; j++ {
		c := verifCert(ref.next(), int64(10*j), 2, ref.tables[j], verifTableSeq(j+1))
		sym.Assume(cs.Put(ctx, c) == nil)
		ref.certs = append(ref.certs, c)
		ref.tables = append(ref.tables, verifTableSeq(j+1))
	}
	// the interrupted operation
	c := verifCert(ref.next(), int64(10*k), 2, ref.tables[k], verifTableSeq(k+1))
	ds.writes = 0
	ds.crashAfter = sym.Choice("crash-after-writes", 4)
	perr := cs.Put(ctx, c)
	if ds.crashed {
		sym.Cover("crashed-mid-put")
		sym.Assert(perr != nil, "crashed-put-reports-error")
	} else {
		sym.Cover("put-completed")
		sym.Assert(perr == nil, "uncrashed-put-succeeds")
	}
	completed := !ds.crashed
	ds.restart()

	cs2, err := verifReopen(ctx, ds, first, freq)
	sym.Assert(err == nil, "reopen-after-crash-succeeds")
	if err != nil {
		return
	}
	after := &verifRef{first: first, tables: append(append([]gpbft.PowerEntries{}, ref.tables...), verifTableSeq(k+1)), certs: append(append(ref.certs[:0:0], ref.certs...), c)}
	l := cs2.Latest()
	isAfter := l != nil && l.GPBFTInstance == c.GPBFTInstance
	if completed {
		sym.Assert(isAfter, "completed-put-is-durable")
	}
	if isAfter {
		sym.Cover("after-state")
		verifConsistent(ctx, cs2, after, "after")
	} else {
		sym.Cover("before-state")
		verifConsistentUpToLatest(ctx, cs2, ref, "before")
		// repeat the interrupted operation
		sym.Assert(cs2.Put(ctx, c) == nil, "repeat-put-succeeds")
		verifConsistent(ctx, cs2, after, "after-repeat")
		// and the repeated state survives another reopen
		cs3, err := OpenStore(ctx, ds)
		sym.Assert(err == nil, "reopen-after-repeat")
		if err == nil {
			verifSetFreq(cs3, freq)
			verifConsistent(ctx, cs3, after, "after-repeat-reopen")
		}
	}
}

// verifConsistentUpToLatest compares only what the property lists: latest is
// loadable, every instance up to it has a certificate and a derivable power
// table (orphan data written beyond the latest pointer is not an observable).
func verifConsistentUpToLatest(ctx context.Context, cs *Store, ref *verifRef, when string) {
	n := len(ref.certs)
	latest := cs.Latest()
	if n == 0 {
		sym.Assert(latest == nil, when+":latest-nil")
	} else {
		sym.Assert(latest != nil && verifCertEq(latest, ref.certs[n-1]), when+":latest")
	}
	for i := ref.first; i < ref.next(); i++ {
		c, err := cs.Get(ctx, i)
		sym.Assert(err == nil && verifCertEq(c, ref.certs[i-ref.first]), when+":get-stored")
	}
	for i := ref.first; i <= ref.next(); i++ {
		pt, err := cs.GetPowerTable(ctx, i)
		sym.Assert(err == nil && pt.Equal(ref.tables[i-ref.first]), when+":power-table")
	}
}

// VerifC10_CrashCreate: CreateStore / OpenOrCreateStore interrupted after a
// symbolic number of writes; after restart the store is either absent (and can
// be created) or fully created.
func VerifC10_CrashCreate() {
	ctx := context.Background()
	ds := newVerifDS()
	first := uint64(sym.Uint8("first"))
	sym.Assume(first <= 2)
	ds.crashAfter = sym.Choice("crash-after-writes", 3)
	var err error
	useOOC := sym.Bool("create-with-open-or-create")
	if useOOC {
		_, err = OpenOrCreateStore(ctx, ds, first, verifTableSeq(0))
	} else {
		_, err = CreateStore(ctx, ds, first, verifTableSeq(0))
	}
	if ds.crashed {
		sym.Cover("crashed-mid-create")
		sym.Assert(err != nil, "crashed-create-reports-error")
	} else {
		sym.Assert(err == nil, "uncrashed-create-succeeds")
	}
	completed := !ds.crashed
	ds.restart()
	ref := &verifRef{first: first, tables: []gpbft.PowerEntries{verifTableSeq(0)}}
	cs, err := OpenStore(ctx, ds)
	if err == nil {
		sym.Cover("created-state")
		verifConsistent(ctx, cs, ref, "created")
	} else {
		sym.Cover("absent-state")
		sym.Assert(!completed, "completed-create-is-durable")
		sym.Assert(errors.Is(err, ErrNotInitialized), "absent-store-reports-not-initialized")
		// repeat with either constructor
		var cs2 *Store
		if sym.Bool("repeat-with-open-or-create") {
			cs2, err = OpenOrCreateStore(ctx, ds, first, verifTableSeq(0))
		} else {
			cs2, err = CreateStore(ctx, ds, first, verifTableSeq(0))
		}
		sym.Assert(err == nil, "repeat-create-succeeds")
		if err == nil {
			verifConsistent(ctx, cs2, ref, "after-repeat-create")
		}
	}
}

// VerifC10_CrashWipe: DeleteAll interrupted after a symbolic number of
// datastore writes (query order rotated symbolically); on reopen the wipe must
// be completed: the store is uninitialised/empty, never half-deleted.
func VerifC10_CrashWipe() {
	ctx := context.Background()
	ds := newVerifDS()
	first := uint64(sym.Uint8("first"))
	sym.Assume(first <= 1)
	cs, err := CreateStore(ctx, ds, first, verifTableSeq(0))
	sym.Assume(err == nil)
	cs.powerTableFrequency = 2
	ref := &verifRef{first: first, tables: []gpbft.PowerEntries{verifTableSeq(0)}}
	k := 1 + sym.Choice("history", 2)
	for j := 0; j < k; j++ {
		c := verifCert(ref.next(), int64(10*j), 2, ref.tables[j], verifTableSeq(j+1))
		sym.Assume(cs.Put(ctx, c) == nil)
		ref.certs = append(ref.certs, c)
		ref.tables = append(ref.tables, verifTableSeq(j+1))
	}
	nkeys := len(ds.keys)
	ds.rot = sym.Choice("query-rotation", nkeys)
	ds.writes = 0
	ds.crashAfter = sym.Choice("crash-after-writes", nkeys+3)
	derr := cs.DeleteAll(ctx)
	if ds.crashed {
		sym.Cover("crashed-mid-wipe")
	} else {
		sym.Cover("wipe-completed")
		sym.Assert(derr == nil, "uncrashed-wipe-succeeds")
	}
	wipeStarted := ds.writes > 0 // the tombstone was written
	ds.restart()
	ds.rot = 0

	cs2, err := OpenStore(ctx, ds)
	if !wipeStarted {
		// nothing happened: the old store must be intact
		sym.Cover("wipe-not-started")
		sym.Assert(err == nil, "unstarted-wipe-leaves-store")
		if err == nil {
			cs2.powerTableFrequency = 2
			verifConsistent(ctx, cs2, ref, "unstarted-wipe")
		}
		return
	}
	sym.Cover("wipe-started")
	// KNOWN-FINDING discriminator: the tombstone is written inside the store's
	// namespace but looked for at the root on open.
	sym.Assert(errors.Is(err, ErrNotInitialized), "KNOWN:c10-wipe-not-resumed:interrupted wipe is completed on reopen")
	sym.Assert(len(ds.keys) == 0, "KNOWN:c10-wipe-not-resumed:no key survives a resumed wipe")
	// and a fresh store can be created afterwards
	cs3, err := CreateStore(ctx, ds, first+7, verifTableSeq(1))
	sym.Assert(err == nil, "KNOWN:c10-wipe-not-resumed:create after wipe succeeds")
	if err == nil {
		verifConsistent(ctx, cs3, &verifRef{first: first + 7, tables: []gpbft.PowerEntries{verifTableSeq(1)}}, "fresh-after-wipe")
	}
}
