//go:build verif

package certstore

import (
	"context"
	"errors"
	"strings"

	"github.com/filecoin-project/go-f3/certs"
	"github.com/filecoin-project/go-f3/gpbft"
	sym "github.com/filecoin-project/go-f3/internal/verifsym"
	cid "github.com/ipfs/go-cid"
	"github.com/ipfs/go-datastore"
	"github.com/ipfs/go-datastore/query"
)

// verifDS is an in-memory datastore with (a) insertion-ordered keys whose query
// order can be rotated, and (b) crash injection at datastore-write granularity:
// after crashAfter effective writes every further write is dropped and fails.
type verifDS struct {
	keys       []string
	vals       map[string][]byte
	writes     int // Put/Delete calls that took effect
	crashAfter int // -1: never
	crashed    bool
	rot        int // query order rotation
	log        []string
}

var errVerifCrashed = errors.New("verif: process crashed")

func newVerifDS() *verifDS { return &verifDS{vals: map[string][]byte{}, crashAfter: -1} }

var _ datastore.Datastore = (*verifDS)(nil)

func (d *verifDS) Get(_ context.Context, k datastore.Key) ([]byte, error) {
	v, ok := d.vals[k.String()]
	if !ok {
		return nil, datastore.ErrNotFound
	}
	return append([]byte(nil), v...), nil
}

func (d *verifDS) Has(_ context.Context, k datastore.Key) (bool, error) {
	_, ok := d.vals[k.String()]
	return ok, nil
}

func (d *verifDS) GetSize(_ context.Context, k datastore.Key) (int, error) {
	v, ok := d.vals[k.String()]
	if !ok {
		return -1, datastore.ErrNotFound
	}
	return len(v), nil
}

func (d *verifDS) Query(_ context.Context, q query.Query) (query.Results, error) {
	var es []query.Entry
	n := len(d.keys)
	for i := 0; i < n; i++ {
		k := d.keys[(i+d.rot)%n]
		if q.Prefix != "" && q.Prefix != "/" && !strings.HasPrefix(k, strings.TrimSuffix(q.Prefix, "/")+"/") {
			continue
		}
		e := query.Entry{Key: k, Size: len(d.vals[k])}
		if !q.KeysOnly {
			e.Value = append([]byte(nil), d.vals[k]...)
		}
		es = append(es, e)
	}
	return query.ResultsWithEntries(q, es), nil
}

func (d *verifDS) write() bool {
	if d.crashed {
		return false
	}
	if d.crashAfter >= 0 && d.writes >= d.crashAfter {
		d.crashed = true
		return false
	}
	d.writes++
	return true
}

func (d *verifDS) Put(_ context.Context, k datastore.Key, v []byte) error {
	if !d.write() {
		return errVerifCrashed
	}
	ks := k.String()
	if _, ok := d.vals[ks]; !ok {
		d.keys = append(d.keys, ks)
	}
	d.vals[ks] = append([]byte(nil), v...)
	return nil
}

func (d *verifDS) Delete(_ context.Context, k datastore.Key) error {
	if !d.write() {
		return errVerifCrashed
	}
	ks := k.String()
	if _, ok := d.vals[ks]; ok {
		delete(d.vals, ks)
		for i, x := range d.keys {
			if x == ks {
				d.keys = append(d.keys[:i:i], d.keys[i+1:]...)
				break
			}
		}
	}
	return nil
}

func (d *verifDS) Sync(context.Context, datastore.Key) error { return nil }
func (d *verifDS) Close() error                              { return nil }

// restart models a process restart: the durable content survives, the crash flag is cleared.
func (d *verifDS) restart() {
	d.crashed = false
	d.crashAfter = -1
	d.writes = 0
}

// ---- concrete universe of tables, chains and certificates ----

func verifKey(b byte) gpbft.PubKey { return gpbft.PubKey{b, b + 1, b + 2} }

func verifTable(powers ...int64) gpbft.PowerEntries {
	var pt gpbft.PowerEntries
	for i, p := range powers {
		if p == 0 {
			continue
		}
		pt = append(pt, gpbft.PowerEntry{ID: gpbft.ActorID(i + 1), Power: gpbft.NewStoragePower(p), PubKey: verifKey(byte(10 * (i + 1)))})
	}
	// canonical order: power descending, id ascending
	for i := 1; i < len(pt); i++ {
		for j := i; j > 0 && (pt[j].Power.GreaterThan(pt[j-1].Power) || (pt[j].Power.Equals(pt[j-1].Power) && pt[j].ID < pt[j-1].ID)); j-- {
			pt[j], pt[j-1] = pt[j-1], pt[j]
		}
	}
	return pt
}

func verifTipSet(epoch int64, tag byte) *gpbft.TipSet {
	return &gpbft.TipSet{
		Epoch:      epoch,
		Key:        gpbft.TipSetKey{tag, tag, tag, 1},
		PowerTable: gpbft.MakeCid([]byte{tag, 2}),
	}
}

// verifCert builds a store-admissible certificate for `instance` finalizing
// tipsets after base, moving the committee from prev to next.
func verifCert(instance uint64, baseEpoch int64, n int, prev, next gpbft.PowerEntries) *certs.FinalityCertificate {
	ts := []*gpbft.TipSet{verifTipSet(baseEpoch, byte(baseEpoch))}
	for i := 1; i <= n; i++ {
		ts = append(ts, verifTipSet(baseEpoch+int64(i), byte(baseEpoch+int64(i))))
	}
	cid, err := certs.MakePowerTableCID(next)
	if err != nil {
		panic(err)
	}
	return &certs.FinalityCertificate{
		GPBFTInstance:    instance,
		ECChain:          &gpbft.ECChain{TipSets: ts},
		SupplementalData: gpbft.SupplementalData{PowerTable: cid},
		Signature:        []byte{1, 2, 3},
		PowerTableDelta:  certs.MakePowerTableDiff(prev, next),
	}
}

func verifCertEq(a, b *certs.FinalityCertificate) bool {
	if a == nil || b == nil {
		return a == b
	}
	if a.GPBFTInstance != b.GPBFTInstance || !a.ECChain.Eq(b.ECChain) || a.SupplementalData != b.SupplementalData {
		return false
	}
	if len(a.PowerTableDelta) != len(b.PowerTableDelta) {
		return false
	}
	for i := range a.PowerTableDelta {
		x, y := a.PowerTableDelta[i], b.PowerTableDelta[i]
		if x.ParticipantID != y.ParticipantID || !x.PowerDelta.Equals(y.PowerDelta) || string(x.SigningKey) != string(y.SigningKey) {
			return false
		}
	}
	return string(a.Signature) == string(b.Signature)
}

var _ = sym.Bool

// Batch makes verifDS a datastore.Batching (needed by snapshot import).
func (d *verifDS) Batch(context.Context) (datastore.Batch, error) {
	return datastore.NewBasicBatch(d), nil
}

type gpbftCid = cid.Cid

func makePowerTableCID(pt gpbft.PowerEntries) (cid.Cid, error) { return certs.MakePowerTableCID(pt) }


// verifParams picks the store parameters: either a small test frequency
// (1..3, set on every handle after construction) with a small first instance,
// or the real default frequency (1440, never overridden, so that open paths
// run with it too) with a first instance just below a checkpoint multiple.
func verifParams(maxFirst uint8) (first uint64, freq uint64) {
	if sym.Bool("real-frequency") {
		d := sym.Uint8("first-offset")
		sym.Assume(d <= 3)
		return sym.PickU64(1437 + uint64(d)), 0
	}
	f := sym.Uint8("first")
	sym.Assume(f <= maxFirst)
	q := sym.Uint8("freq")
	maxQ := uint8(2 + sym.Tier()) // quick tier: checkpoint after every or every second instance
	sym.Assume(sym.And(q >= 1, q <= maxQ))
	return sym.PickU64(uint64(f)), sym.PickU64(uint64(q))
}

func verifSetFreq(cs *Store, freq uint64) {
	if cs != nil && freq != 0 {
		cs.powerTableFrequency = freq
	}
}
