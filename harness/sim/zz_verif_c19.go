//go:build verif

package sim

import (
	"github.com/filecoin-project/go-bitfield"
	"github.com/filecoin-project/go-f3/gpbft"
	sym "github.com/filecoin-project/go-f3/internal/verifsym"
)

type verifBackend struct{ gpbft.VerifCrypto }

func (verifBackend) GenerateKey() (gpbft.PubKey, any) { return gpbft.VerifKey(99), nil }
func (verifBackend) MarshalPayloadForSigning(nn gpbft.NetworkName, p *gpbft.Payload) []byte {
	return p.MarshalForSigning(nn)
}

// VerifC19_SimOracle: a decision injected through the simulator's host
// interface; if the simulator reports no error then the decision must be for
// the right instance/phase/round, non-empty, on the instance's base, signed by
// a strong quorum of the instance's (scaled) power table with a verifying
// aggregate.
func VerifC19_SimOracle() {
	const nn = gpbft.NetworkName("verif")
	ec := &simEC{networkName: nn, verifier: verifBackend{}}
	// committee: one of a few power distributions (concrete raw powers; the
	// signer set and every decision field are symbolic)
	var entries gpbft.PowerEntries
	switch sym.Choice("table", 4) {
	case 0:
		entries = gpbft.VerifEntries(4, 3, 2, 1)
	case 1:
		entries = gpbft.VerifEntries(1, 1, 1)
	case 2:
		entries = gpbft.VerifEntries(5, 1)
	default:
		entries = gpbft.VerifEntries(100000, 1, 1) // members with zero scaled power
	}
	pt := gpbft.NewPowerTable()
	if err := pt.Add(entries...); err != nil {
		panic(err)
	}
	symbolicPowers := sym.Bool("symbolic-scaled-powers")
	if symbolicPowers {
		// representation invariant of a power table: scaled powers in [0,65535]
		// summing to ScaledTotal in [1,65535]; the values themselves are arbitrary
		var total int64
		for i := range pt.ScaledPower {
			s := int64(sym.Uint16("scaled-power"))
			pt.ScaledPower[i] = s
			total += s
		}
		sym.Assume(sym.And(total >= 1, total <= 0xffff))
		pt.ScaledTotal = total
	}
	base := gpbft.VerifChain(10, 1)
	inst := ec.BeginInstance(base, pt)

	// the decision
	var value *gpbft.ECChain
	switch sym.Choice("value", 4) {
	case 0:
		value = gpbft.VerifChain(10, 1, 2, 3) // extends the base
	case 1:
		value = gpbft.VerifChain(10, 1) // base only
	case 2:
		value = gpbft.VerifChain(10, 9, 2) // wrong base
	default:
		value = &gpbft.ECChain{} // bottom
	}
	vote := gpbft.Payload{
		Instance:         sym.Uint64("instance"),
		Round:            sym.Uint64("round"),
		Phase:            gpbft.Phase(sym.Uint8("phase")),
		SupplementalData: *inst.SupplementalData,
		Value:            value,
	}
	n := len(entries)
	var signerIdx []uint64
	var mask []int
	for i := 0; i < n+1; i++ { // index n is out of range
		if sym.Bool("signer") {
			signerIdx = append(signerIdx, uint64(i))
			mask = append(mask, i)
		}
	}
	signedVote := vote
	var sig []byte
	switch sym.Choice("signature", 3) {
	case 0: // ideal aggregate of exactly the listed signers over exactly the vote
		if len(mask) > 0 && mask[len(mask)-1] >= n {
			sym.Assume(false)
		}
		sig = gpbft.VerifAggregateSig(entries.PublicKeys(), mask, signedVote.MarshalForSigning(nn))
	case 1: // aggregate over a payload differing in the round
		if len(mask) > 0 && mask[len(mask)-1] >= n {
			sym.Assume(false)
		}
		signedVote.Round++
		sig = gpbft.VerifAggregateSig(entries.PublicKeys(), mask, signedVote.MarshalForSigning(nn))
	default:
		sig = sym.Bytes("forged-signature", 32)
	}
	decision := &gpbft.Justification{Vote: vote, Signers: bitfield.NewFromSet(signerIdx), Signature: sig}
	// optionally another participant has already reported a genuine decision
	// (for the chain that extends the base): the oracle must judge every
	// reported decision on its own
	if !symbolicPowers && sym.Bool("after-a-genuine-decision") {
		var gIdx []uint64
		var gMask []int
		for i := 0; i < n; i++ {
			if pt.ScaledPower[i] > 0 {
				gIdx = append(gIdx, uint64(i))
				gMask = append(gMask, i)
			}
		}
		gv := gpbft.Payload{Instance: inst.Instance, Phase: gpbft.DECIDE_PHASE, SupplementalData: *inst.SupplementalData, Value: gpbft.VerifChain(10, 1, 2, 3)}
		ec.NotifyDecision(2, &gpbft.Justification{Vote: gv, Signers: bitfield.NewFromSet(gIdx),
			Signature: gpbft.VerifAggregateSig(entries.PublicKeys(), gMask, gv.MarshalForSigning(nn))})
		sym.Assert(ec.Err() == nil, "a genuine decision is not reported as an error")
		sym.Cover("after-genuine")
	}
	panicked := false
	func() {
		defer func() {
			if r := recover(); r != nil {
				panicked = true
			}
		}()
		ec.NotifyDecision(1, decision)
	}()
	sym.Assert(!panicked, "KNOWN:c19-sim-instance-overflow-panics:a decision with any instance number is reported, not a crash")
	if panicked {
		return
	}
	if ec.Err() != nil {
		sym.Cover("rejected")
		return
	}
	sym.Cover("accepted")
	sym.Assert(vote.Instance == inst.Instance, "accepted => right instance")
	sym.Assert(vote.Phase == gpbft.DECIDE_PHASE, "accepted => DECIDE")
	sym.Assert(vote.Round == 0, "accepted => round 0")
	sym.Assert(!value.IsZero(), "accepted => non-empty")
	sym.Assert(value.HasBase(base.Head()), "accepted => on the instance base")
	// strong quorum of the instance's scaled power table
	var power int64
	inRange := true
	for _, i := range mask {
		if i >= n {
			inRange = false
		} else {
			power += pt.ScaledPower[i]
		}
	}
	sym.Assert(inRange, "accepted => signer indices in range")
	sym.Assert(gpbft.IsStrongQuorum(power, pt.ScaledTotal), "KNOWN:c19-sim-quorum-from-zero:accepted => signers hold a strong quorum of the instance power table")
	sym.Assert(string(sig) == string(gpbft.VerifAggregateSig(entries.PublicKeys(), mask, vote.MarshalForSigning(nn))), "accepted => aggregate verifies over the exact vote")
}

// VerifC19_SimConsensus: HasReachedConsensus / HasCompleted are true only if
// all non-excluded members decided (the same chain).
func VerifC19_SimConsensus() {
	ec := &simEC{networkName: "verif", verifier: verifBackend{}}
	entries := gpbft.VerifEntries(3, 2, 1)
	pt := gpbft.NewPowerTable()
	if err := pt.Add(entries...); err != nil {
		panic(err)
	}
	inst := ec.BeginInstance(gpbft.VerifChain(10, 1), pt)
	chains := []*gpbft.ECChain{gpbft.VerifChain(10, 1, 2), gpbft.VerifChain(10, 1, 3)}
	decided := make([]int, 3) // 0 = none, 1/2 = chain index+1
	for i := range entries {
		d := sym.Choice("decided", 3)
		decided[i] = d
		if d > 0 {
			inst.decisions[entries[i].ID] = &gpbft.Justification{Vote: gpbft.Payload{Value: chains[d-1]}}
		}
	}
	var exclude []gpbft.ActorID
	excl := make([]bool, 3)
	for i := range entries {
		if sym.Bool("excluded") {
			excl[i] = true
			exclude = append(exclude, entries[i].ID)
		}
	}
	allDecided, same, first := true, true, 0
	for i := range entries {
		if excl[i] {
			continue
		}
		if decided[i] == 0 {
			allDecided = false
		} else if first == 0 {
			first = decided[i]
		} else if decided[i] != first {
			same = false
		}
	}
	c, ok := inst.HasReachedConsensus(exclude...)
	sym.Cover("queried")
	sym.Assert(ok == (allDecided && same), "consensus iff all non-excluded decided the same chain")
	if ok && first > 0 {
		sym.Assert(c.Eq(chains[first-1]), "consensus value is the common decision")
	}
	sym.Assert(inst.HasCompleted(exclude...) == allDecided, "completed iff all non-excluded decided")
}
