//go:build verif

package certchain

import (
	"github.com/filecoin-project/go-f3/certs"
	"github.com/filecoin-project/go-f3/ec"
	"github.com/filecoin-project/go-f3/manifest"
)

// VerifNewWithCertificates (harness helper): a generator over the given EC
// backend and manifest that already holds the given certificate history.
func VerifNewWithCertificates(ecb ec.Backend, m manifest.Manifest, sv SignVerifier, cs []*certs.FinalityCertificate) *CertChain {
	cc, err := New(WithEC(ecb), WithManifest(m), WithSignVerifier(sv))
	if err != nil {
		panic(err)
	}
	cc.certificates = cs
	return cc
}
