//go:build verif

package gpbft

import (
	"context"
	"time"

	sym "github.com/filecoin-project/go-f3/internal/verifsym"
)

// value universe on base (10, tag 1): X1=[b] X2=[b,2] X3=[b,2,3] Y=VerifX(4)=[b,4]
func verifPick(tag string, options ...int) (*ECChain, int) {
	k := sym.Choice(tag, len(options)+1)
	if k == 0 {
		return nil, -1
	}
	return VerifX(options[k-1]), options[k-1]
}

// qualitySupport: scaled power of delivered QUALITY votes supporting prefix v.
func (e *verifEnv) qualitySupport(v *ECChain) int64 {
	var pw int64
	seen := map[ActorID]bool{}
	for _, m := range e.delivered {
		if m.Vote.Phase != QUALITY_PHASE || seen[m.Sender] {
			continue
		}
		seen[m.Sender] = true
		if m.Vote.Value.HasPrefix(v) {
			x, _ := e.c.PowerTable.Get(m.Sender)
			pw += x
		}
	}
	return pw
}

func (e *verifEnv) lastBroadcast() *MessageBuilder {
	if len(e.h.broadcasts) == 0 {
		return nil
	}
	return e.h.broadcasts[len(e.h.broadcasts)-1]
}

func (e *verifEnv) phase() Phase { return e.p.Progress().Phase }

// VerifCore_Quality: round 0 from the start of the instance: QUALITY votes of
// the peers (each none / the input / a proper prefix / a fork), optional echo of
// the own QUALITY message, timeout; arbitrary scaled powers.  R5: the round-0
// PREPARE value is the longest prefix of the input backed by a strong quorum
// of the QUALITY votes delivered so far (the base if none); leaves QUALITY
// before the timeout only on a strong quorum for the whole input.
func VerifCore_Quality() {
	input := VerifX(3)
	e := newVerifEnv(input, true)
	e.start()
	sym.Assert(len(e.h.broadcasts) == 1 && e.h.broadcasts[0].Payload.Phase == QUALITY_PHASE && e.h.broadcasts[0].Payload.Value.Eq(input), "R1: the instance starts with exactly one QUALITY for the input")
	if sym.Bool("echo-own-quality") {
		e.echo(0)
	}
	for _, idx := range []int{0, 1, verifByzIdx} {
		if e.phase() != QUALITY_PHASE {
			break
		}
		v, _ := verifPick("quality-vote", 3, 2, 4)
		if v == nil {
			continue
		}
		if m := e.message(idx, 0, QUALITY_PHASE, v, 0, 0); m != nil {
			before := e.phase()
			e.deliver(m)
			if before == QUALITY_PHASE && e.phase() != QUALITY_PHASE {
				sym.Cover("left-quality-on-quorum")
				sym.Assert(IsStrongQuorum(e.qualitySupport(input), e.total()), "leaves QUALITY before the timeout only with a strong quorum for its input")
			}
		}
	}
	if e.phase() == QUALITY_PHASE {
		sym.Cover("quality-timeout")
		e.fireAlarm(0)
	}
	sym.Assert(e.phase() == PREPARE_PHASE, "T2: QUALITY ends at the timeout at the latest")
	mb := e.lastBroadcast()
	sym.Assert(mb.Payload.Phase == PREPARE_PHASE && mb.Payload.Round == 0, "emits PREPARE for round 0")
	// R5 reference: longest prefix of the input with a strong quorum, else the base
	want := VerifX(1)
	for _, n := range []int{3, 2} {
		if IsStrongQuorum(e.qualitySupport(VerifX(n)), e.total()) {
			want = VerifX(n)
			break
		}
	}
	if want.Len() == 1 {
		sym.Cover("prepare-base")
	} else if want.Len() == 3 {
		sym.Cover("prepare-input")
	} else {
		sym.Cover("prepare-prefix")
	}
	sym.Assert(mb.Payload.Value.Eq(want), "R5: round-0 PREPARE value is the longest QUALITY-backed prefix of the input")
}

// prepareSupport: delivered PREPARE votes of round r for v, and total senders' power.
func (e *verifEnv) tally(round uint64, phase Phase, v *ECChain) (forV, all int64) {
	seen := map[ActorID]bool{}
	for _, m := range e.delivered {
		if m.Vote.Phase != phase || m.Vote.Round != round || seen[m.Sender] {
			continue
		}
		seen[m.Sender] = true
		x, _ := e.c.PowerTable.Get(m.Sender)
		all += x
		if m.Vote.Value.Eq(v) || (m.Vote.Value.IsZero() && v.IsZero()) {
			forV += x
		}
	}
	return
}

// quickToPrepare drives the participant to PREPARE of round 0 with proposal =
// its whole input (everyone sends QUALITY for the input).
func (e *verifEnv) quickToPrepare() {
	e.start()
	e.echo(0)
	for _, idx := range []int{0, 1} {
		if e.phase() == QUALITY_PHASE {
			e.deliver(e.message(idx, 0, QUALITY_PHASE, e.input, 0, 0))
		}
	}
	if e.phase() == QUALITY_PHASE {
		e.fireAlarm(0)
	}
}

// VerifCore_Prepare: PREPARE phase of round 0 with proposal P = input: PREPARE
// votes of the peers (none / P / another value / bottom), echo, timeout;
// arbitrary scaled powers.  R7: never COMMIT bottom while holding a strong
// PREPARE quorum for the proposal; COMMIT bottom before the timeout only if
// that quorum has become impossible; V3: COMMIT(P) with a justification on a
// strong quorum.
func VerifCore_Prepare() {
	input := VerifX(2)
	e := newVerifEnv(input, true)
	e.quickToPrepare()
	sym.Assume(e.phase() == PREPARE_PHASE)
	prepareIdx := len(e.h.broadcasts) - 1
	proposal := e.h.broadcasts[prepareIdx].Payload.Value
	sym.Assume(proposal.Eq(input))
	timedOut := false
	if sym.Bool("echo-own-prepare") {
		e.echo(prepareIdx)
	}
	proofHeld := false
	for _, idx := range []int{0, 1, verifByzIdx} {
		if e.phase() != PREPARE_PHASE {
			break
		}
		k := sym.Choice("prepare-vote", 5)
		var v *ECChain
		switch k {
		case 0:
			continue
		case 1:
			v = proposal
		case 2:
			v = VerifX(1)
		case 3:
			v = &ECChain{}
		default:
			// signs PREPARE for the proposal, but the message does not arrive
			e.castVote(idx, 0, PREPARE_PHASE, proposal)
			continue
		}
		if m := e.message(idx, 0, PREPARE_PHASE, v, 0, 0); m != nil {
			e.deliver(m)
		}
	}
	// a peer that has seen the PREPARE quorum may already have sent its COMMIT,
	// which carries the proof of that quorum
	if e.phase() == PREPARE_PHASE && sym.Bool("commit-with-proof-arrives") {
		if m := e.message(sym.Choice("commit-sender", 2), 0, COMMIT_PHASE, proposal, 3, 0); m != nil && e.deliver(m) {
			proofHeld = true
			sym.Cover("proof-held")
		}
	}
	if e.phase() == PREPARE_PHASE {
		timedOut = true
		e.fireAlarm(0)
	}
	if e.phase() == PREPARE_PHASE {
		// timeout elapsed but no strong quorum of senders yet: stays in PREPARE (and rebroadcasts)
		sym.Cover("prepare-waits-for-senders")
		_, all := e.tally(0, PREPARE_PHASE, proposal)
		sym.Assert(!IsStrongQuorum(all, e.total()), "T2: PREPARE ends at the timeout once a strong quorum of senders was heard")
		sym.Assert(!e.h.alarm.IsZero() && !e.h.alarm.Before(e.h.now), "T1: a participant that waits has a pending alarm")
		return
	}
	// (with a peer that is a strong quorum on its own, its COMMIT may already have led on to DECIDE)
	var mb *MessageBuilder
	for _, b := range e.h.broadcasts {
		if b.Payload.Phase == COMMIT_PHASE && b.Payload.Round == 0 {
			mb = b
		}
	}
	if mb == nil {
		// a strong quorum of COMMITs seen while still in PREPARE leads straight to DECIDE
		forC, _ := e.tally(0, COMMIT_PHASE, proposal)
		sym.Assert(e.phase() == DECIDE_PHASE && IsStrongQuorum(forC, e.total()), "leaves PREPARE without a COMMIT of its own only on a strong COMMIT quorum (to DECIDE)")
		return
	}
	forP, all := e.tally(0, PREPARE_PHASE, proposal)
	strong := IsStrongQuorum(forP, e.total())
	if mb.Payload.Value.IsZero() {
		sym.Cover("commit-bottom")
		sym.Assert(!strong, "R7: never commits bottom while holding a strong PREPARE quorum for its proposal")
		sym.Assert(!proofHeld, "R7: never commits bottom while holding proof of a strong PREPARE quorum for its proposal")
		if !timedOut {
			sym.Cover("commit-bottom-early")
			// impossible: even if every member that has not voted yet voted for P
			sym.Assert(!IsStrongQuorum(forP+(e.total()-all), e.total()), "R7: commits bottom before the timeout only if the quorum has become impossible")
		}
	} else {
		sym.Cover("commit-proposal")
		sym.Assert(mb.Payload.Value.Eq(proposal), "commits its proposal or bottom")
		sym.Assert(strong || proofHeld, "V3/R8: commits a value only on a strong PREPARE quorum (or proof of one)")
		sym.Assert(mb.Justification != nil, "COMMIT for a value carries a justification")
	}
}

// quickToCommit drives the participant to COMMIT(P) of round 0.
func (e *verifEnv) quickToCommit() {
	e.quickToPrepare()
	if e.phase() != PREPARE_PHASE {
		return
	}
	e.echo(len(e.h.broadcasts) - 1)
	for _, idx := range []int{0, 1} {
		if e.phase() == PREPARE_PHASE {
			e.deliver(e.message(idx, 0, PREPARE_PHASE, e.input, 0, 0))
		}
	}
}

// VerifCore_CommitDecide: COMMIT phase of round 0 after a strong PREPARE
// quorum for P: COMMIT votes of the peers (none / P with justification /
// bottom), then DECIDE votes; arbitrary scaled powers.  A1 one DECIDE; A2 a
// decision only on a strong quorum of delivered DECIDE votes; C03 the reported
// justification is a proof; V3 the unanimous case decides P.
func VerifCore_CommitDecide() {
	input := VerifX(2)
	e := newVerifEnv(input, sym.Tier() == 1 || sym.Bool("symbolic-powers"))
	e.quickToCommit()
	sym.Assume(e.phase() == COMMIT_PHASE)
	commitIdx := len(e.h.broadcasts) - 1
	sym.Assume(e.h.broadcasts[commitIdx].Payload.Value.Eq(input))
	if sym.Bool("echo-own-commit") {
		e.echo(commitIdx)
	}
	for _, idx := range []int{0, 1, verifByzIdx} {
		if e.phase() != COMMIT_PHASE {
			break
		}
		switch sym.Choice("commit-vote", 3) {
		case 1:
			if m := e.message(idx, 0, COMMIT_PHASE, input, 3, 0); m != nil {
				e.deliver(m)
			}
		case 2:
			if m := e.message(idx, 0, COMMIT_PHASE, &ECChain{}, 0, 0); m != nil {
				e.deliver(m)
			}
		}
	}
	if e.phase() == COMMIT_PHASE {
		e.fireAlarm(0)
	}
	switch e.phase() {
	case DECIDE_PHASE:
		sym.Cover("decide-phase")
		forP, _ := e.tally(0, COMMIT_PHASE, input)
		sym.Assert(IsStrongQuorum(forP, e.total()), "sends DECIDE only on a strong COMMIT quorum")
		mb := e.lastBroadcast()
		sym.Assert(mb.Payload.Phase == DECIDE_PHASE && mb.Payload.Value.Eq(input) && mb.Justification != nil, "DECIDE for the committed value with a justification")
	case CONVERGE_PHASE:
		sym.Cover("next-round")
		// COMMITs of round 0 that were still under way arrive late: if they
		// complete a strong quorum for the value, the participant decides from
		// the later round (and its progress does not move backwards: monitor R3)
		for _, idx := range []int{0, 1, verifByzIdx} {
			if e.phase() == CONVERGE_PHASE && sym.Bool("late-commit-for-the-value") {
				if m := e.message(idx, 0, COMMIT_PHASE, input, 3, 0); m != nil {
					e.deliver(m)
				}
			}
		}
		forP, _ := e.tally(0, COMMIT_PHASE, input)
		if IsStrongQuorum(forP, e.total()) {
			sym.Cover("late-commit-decides-from-a-later-round")
			sym.Assert(e.phase() == DECIDE_PHASE, "a COMMIT quorum completed late still leads to DECIDE")
			mb := e.lastBroadcast()
			sym.Assert(mb.Payload.Phase == DECIDE_PHASE && mb.Payload.Value.Eq(input) && mb.Justification != nil, "DECIDE for the committed value with a justification")
		} else {
			sym.Assert(e.phase() == CONVERGE_PHASE, "without a COMMIT quorum it stays in the new round")
		}
		return
	default:
		sym.Cover("commit-waits")
		sym.Assert(!e.h.alarm.IsZero() && !e.h.alarm.Before(e.h.now), "T1: a participant that waits has a pending alarm")
		return
	}
	// DECIDE votes
	decideIdx := len(e.h.broadcasts) - 1
	if sym.Bool("echo-own-decide") {
		e.echo(decideIdx)
	}
	for _, idx := range []int{0, 1, verifByzIdx} {
		if e.p.Progress().ID != verifInstance {
			break
		}
		if idx != verifByzIdx && sym.Bool("forged-decide-in-its-name") {
			// the adversary forges a DECIDE in the name of an honest member that has
			// not sent one, for another value, and sends it twice
			f := VerifMessage(e.c, idx, verifInstance, 0, DECIDE_PHASE, VerifX(1), VerifJustification(e.c, verifInstance, 0, COMMIT_PHASE, VerifX(1), 0, 1, verifByzIdx))
			f.Signature = []byte("forged-signature-forged-signature")
			sym.Assert(!e.deliver(f), "a forged message is rejected")
			sym.Assert(!e.deliver(f), "a forged message is rejected again when it is sent a second time")
			sym.Cover("forged")
			continue
		}
		if idx != verifByzIdx && sym.Bool("decide-replayed-under-another-key") {
			// the member's genuine DECIDE exists on the wire; the adversary replays
			// its bytes announced under the key of the base chain
			if m := e.message(idx, 0, DECIDE_PHASE, input, 4, 0); m != nil {
				sym.Assert(!e.replayUnderOtherKey(m, VerifX(1)), "a member's message replayed under the key of another chain is rejected")
				sym.Cover("replayed-under-another-key")
			}
			continue
		}
		if idx == verifByzIdx && sym.Bool("byzantine-decide-with-made-up-justification") {
			// the Byzantine member signs, with its own key, a DECIDE for a fork whose
			// "strong COMMIT quorum" justification is made up (right shape, garbage
			// aggregate), and sends it twice
			j := VerifJustification(e.c, verifInstance, 0, COMMIT_PHASE, VerifX(4), 0, 1, verifByzIdx)
			j.Signature = []byte("made-up-aggregate-made-up-aggregate")
			f := VerifMessage(e.c, idx, verifInstance, 0, DECIDE_PHASE, VerifX(4), j)
			sym.Assert(!e.deliver(f), "a message with a made-up justification is rejected")
			sym.Assert(!e.deliver(f), "a message with a made-up justification is rejected again when it is sent a second time")
			sym.Cover("made-up-justification")
			continue
		}
		if sym.Bool("decide-vote") {
			if m := e.message(idx, 0, DECIDE_PHASE, input, 4, 0); m != nil {
				if idx == verifByzIdx && sym.Bool("byzantine-decide-signed-over-other-commitments") {
					// a correctly signed DECIDE whose supplemental data differs from the
					// instance's in the commitments only (its justification is genuine)
					m.Vote.SupplementalData.Commitments[0] ^= 1
					m.Signature = VerifSign(e.c.PowerTable.Entries[idx].PubKey, m.Vote.MarshalForSigning(VerifNN))
					sym.Assert(!e.deliver(m), "a vote over other supplemental data is not accepted")
					continue
				}
				e.deliver(m)
			}
		}
	}
	if len(e.h.decisions) == 1 {
		sym.Cover("decided")
		sym.Assert(e.h.decisions[0].Vote.Value.Eq(input), "V3: the unanimous value is decided")
		sym.Assert(e.p.Progress().ID == verifInstance+1, "moves on to the next instance after deciding")
	} else {
		sym.Cover("undecided")
		sym.Assert(!e.h.alarm.IsZero(), "T1: a participant in DECIDE has a pending alarm")
	}
}

var _ = time.Second

// quickToRound1 drives the participant into CONVERGE of round 1 with its
// QUALITY proposal P = its whole input: QUALITY quorum for P, PREPARE without
// quorum, COMMIT bottom by a strong quorum.
func (e *verifEnv) quickToRound1() {
	e.quickToPrepare() // PREPARE(P) emitted
	if e.phase() != PREPARE_PHASE {
		return
	}
	for _, idx := range []int{0, 1} {
		e.deliver(e.message(idx, 0, PREPARE_PHASE, VerifX(1), 0, 0)) // peers prepare the base only
	}
	if e.phase() == PREPARE_PHASE {
		e.fireAlarm(0)
	}
	if e.phase() != COMMIT_PHASE {
		return
	}
	e.echo(len(e.h.broadcasts) - 1) // own COMMIT(bottom)
	for _, idx := range []int{0, 1} {
		if e.phase() == COMMIT_PHASE {
			e.deliver(e.message(idx, 0, COMMIT_PHASE, &ECChain{}, 0, 0))
		}
	}
	if e.phase() == COMMIT_PHASE {
		e.fireAlarm(0)
	}
}

// VerifCore_Converge: CONVERGE of round 1 with QUALITY proposal P=[b,2,3]:
// CONVERGE messages of the peers for P, a proper prefix of P, the base or a
// fork (all justified by the strong COMMIT-bottom quorum of round 0), then the
// timeout.  R6: the value adopted (the round-1 PREPARE value) is the
// best-ticket value among those that are prefixes of the QUALITY proposal.
func VerifCore_Converge() {
	input := VerifX(3)
	e := newVerifEnv(input, false)
	e.quickToRound1()
	sym.Assume(e.phase() == CONVERGE_PHASE && e.p.Progress().Round == 1)
	own := e.lastBroadcast()
	sym.Assert(own.Payload.Phase == CONVERGE_PHASE && own.Payload.Value.Eq(input) && own.Justification != nil, "enters round 1 with CONVERGE for its proposal, justified")
	type cand struct {
		v    *ECChain
		rank float64
	}
	var prefixCands []cand
	for _, idx := range []int{0, 1, verifByzIdx} {
		v, _ := verifPick("converge-vote", 3, 2, 1, 4)
		if v == nil {
			continue
		}
		m := e.message(idx, 1, CONVERGE_PHASE, v, 2, 0)
		if m == nil {
			continue
		}
		if e.deliver(m) && input.HasPrefix(v) {
			prefixCands = append(prefixCands, cand{v, ComputeTicketRank(m.Ticket, e.power(idx))})
		}
	}
	sym.Assume(e.phase() == CONVERGE_PHASE)
	e.fireAlarm(0)
	sym.Assert(e.phase() == PREPARE_PHASE && e.p.Progress().Round == 1, "T2: CONVERGE ends at its timeout")
	mb := e.lastBroadcast()
	sym.Assert(mb.Payload.Phase == PREPARE_PHASE && mb.Payload.Round == 1, "emits PREPARE for round 1")
	want := input // nothing admissible received: keeps its own proposal
	best := -1
	for k, c := range prefixCands {
		if best < 0 || c.rank < prefixCands[best].rank {
			best = k
		}
	}
	if best >= 0 {
		want = prefixCands[best].v
		if want.Len() == 2 {
			sym.Cover("best-ticket-is-proper-prefix")
		} else {
			sym.Cover("best-ticket-is-proposal-or-base")
		}
	} else {
		sym.Cover("keeps-own-proposal")
	}
	if want.Len() == 2 {
		sym.Assert(mb.Payload.Value.Eq(want), "KNOWN:c07-converge-prefix-not-candidate:R6: adopts the best-ticket CONVERGE value when it is a prefix of its QUALITY proposal")
	} else {
		sym.Assert(mb.Payload.Value.Eq(want), "R6: adopts the best-ticket CONVERGE value among the prefixes of its QUALITY proposal")
	}
}

// VerifCore_SkipRound: while still in round 0 (QUALITY or PREPARE), the
// participant receives, from a weak quorum, PREPARE messages of a later round
// together with a justified CONVERGE of that round, and skips ahead; then the
// CONVERGE timeout fires.  R4/T1: no internal error, and a pending alarm remains.
func VerifCore_SkipRound() {
	input := VerifX(2)
	e := newVerifEnv(input, false)
	e.start()
	inQuality := sym.Bool("skip-from-quality")
	if !inQuality {
		e.echo(0)
		e.deliver(e.message(0, 0, QUALITY_PHASE, input, 0, 0))
		e.deliver(e.message(1, 0, QUALITY_PHASE, input, 0, 0))
		sym.Assume(e.phase() == PREPARE_PHASE)
	}
	// the peers have moved on: round 0 ended for them with COMMIT bottom ...
	for _, idx := range []int{0, 1, verifByzIdx} {
		e.castVote(idx, 0, COMMIT_PHASE, &ECChain{})
	}
	// ... and they are in round 1, proposing either our input or a fork
	v, _ := verifPick("their-proposal", 2, 4)
	sym.Assume(v != nil)
	if m := e.message(0, 1, CONVERGE_PHASE, v, 2, 0); m != nil {
		e.deliver(m)
	}
	if m := e.message(0, 1, PREPARE_PHASE, v, 2, 0); m != nil {
		e.deliver(m)
	}
	if m := e.message(1, 1, PREPARE_PHASE, v, 2, 0); m != nil {
		e.deliver(m)
	}
	if e.p.Progress().Round == 1 {
		sym.Cover("skipped-to-round-1")
		sym.Assert(e.phase() == CONVERGE_PHASE, "skip lands in CONVERGE of the new round")
	} else {
		sym.Cover("did-not-skip")
		return
	}
	e.tolerateAlarmError = true
	e.fireAlarm(0) // CONVERGE timeout
	sym.Assert(e.stepErr == nil, "KNOWN:c07-no-values-at-converge:R4: the CONVERGE timeout after a skip never yields an internal error")
	sym.Assert(!e.h.alarm.IsZero() && !e.h.alarm.Before(e.h.now), "KNOWN:c07-no-values-at-converge:T1: the participant still has a pending alarm")
}

// VerifCore_LateRoundEntry: the participant is still in round 0 (QUALITY or
// PREPARE) while its peers have finished round 0; it is pulled into round 1 by
// a weak quorum of PREPAREs plus a CONVERGE whose value (its input or a fork)
// is justified either by a PREPARE quorum of round 0 (it sways) or by the
// COMMIT-bottom quorum.  Then any subset of the peers' late round-0 COMMITs
// for bottom arrives, optionally a second CONVERGE for another value with
// either justification, and the CONVERGE timeout fires.  R4/T1: no internal
// error and an alarm stays pending; R8 (monitor): the round-1 PREPARE is for a
// prefix of the input or a value with proof of a strong quorum; the adopted
// value is one that was received (or the own proposal).
func VerifCore_LateRoundEntry() {
	input := VerifX(2)
	e := newVerifEnv(input, false)
	e.start()
	if !sym.Bool("skip-from-quality") {
		e.echo(0)
		e.deliver(e.message(0, 0, QUALITY_PHASE, input, 0, 0))
		e.deliver(e.message(1, 0, QUALITY_PHASE, input, 0, 0))
		sym.Assume(e.phase() == PREPARE_PHASE)
	}
	// signatures that exist among the peers: round 0 ended with COMMIT bottom;
	// PREPAREs of round 0 for the value they converge on
	v, _ := verifPick("their-proposal", 2, 4)
	sym.Assume(v != nil)
	for _, idx := range []int{0, 1, verifByzIdx} {
		e.castVote(idx, 0, COMMIT_PHASE, &ECChain{})
		e.castVote(idx, 0, PREPARE_PHASE, v)
	}
	jk := 1 + sym.Choice("converge-justified-by-commit-bottom", 2)
	convSender := 0
	if sym.Bool("converge-from-byzantine") {
		convSender = verifByzIdx
	}
	if m := e.message(convSender, 1, CONVERGE_PHASE, v, jk, 0); m != nil {
		e.deliver(m)
	}
	// the PREPAREs that pull the participant ahead need not be for the CONVERGE value
	vp := v
	if sym.Bool("prepares-for-the-input") {
		vp = input
	}
	for _, idx := range []int{0, 1} {
		if m := e.message(idx, 1, PREPARE_PHASE, vp, 2, 0); m != nil {
			e.deliver(m)
		}
	}
	if e.p.Progress().Round != 1 {
		sym.Cover("did-not-skip")
		return
	}
	sym.Cover("skipped-to-round-1")
	if jk == 1 {
		sym.Cover("swayed")
	}
	sym.Assert(e.phase() == CONVERGE_PHASE, "skip lands in CONVERGE of the new round")
	// late COMMITs of round 0
	for _, idx := range []int{0, 1, verifByzIdx} {
		if e.phase() == CONVERGE_PHASE && sym.Bool("late-commit-bottom") {
			if m := e.message(idx, 0, COMMIT_PHASE, &ECChain{}, 0, 0); m != nil {
				e.deliver(m)
			}
		}
	}
	// a second CONVERGE, from the Byzantine member or peer 1, for any value
	received := []*ECChain{v}
	if w, _ := verifPick("second-converge", 2, 4, 1); w != nil {
		jk2 := 2
		if w.Eq(v) && sym.Bool("second-justified-by-prepare") {
			jk2 = 1
		}
		sender := verifByzIdx
		if sym.Bool("second-converge-from-peer-1") {
			sender = 1
		}
		if m := e.message(sender, 1, CONVERGE_PHASE, w, jk2, 0); m != nil && e.deliver(m) {
			received = append(received, w)
		}
	}
	sym.Assume(e.phase() == CONVERGE_PHASE)
	e.fireAlarm(0)
	sym.Assert(e.stepErr == nil, "R4: the CONVERGE timeout after a late round entry never yields an internal error")
	sym.Assert(!e.h.alarm.IsZero() && !e.h.alarm.Before(e.h.now), "T1: the participant still has a pending alarm")
	sym.Assert(e.phase() == PREPARE_PHASE && e.p.Progress().Round == 1, "T2: CONVERGE ends at its timeout")
	mb := e.lastBroadcast()
	if mb.Payload.Phase == PREPARE_PHASE {
		ok := false
		for _, w := range received {
			ok = ok || mb.Payload.Value.Eq(w)
		}
		sym.Assert(ok || e.input.HasPrefix(mb.Payload.Value), "R6: the adopted value is a received CONVERGE value or a prefix of the own input")
	}
}

// VerifCore_QueuedStart: messages that arrive before the instance starts are
// queued; when the instance starts they are delivered in (round, phase)
// order, late-binding validation failures (foreign base) are dropped, and the
// participant ends up exactly where a participant that received the same
// messages directly after starting ends up (T4).
func VerifCore_QueuedStart() {
	input := VerifX(2)
	e := newVerifEnv(input, false)
	d := newVerifEnv(input, false)
	d.votes = e.votes // one world of existing signatures
	sym.Assert(e.p.StartInstanceAt(verifInstance, e.h.now) == nil, "R4: StartInstanceAt succeeds")
	e.lastProgress = e.p.Progress()
	foreign := VerifX(5)
	far := [2]int{sym.Choice("peer0-got-to", 5), sym.Choice("peer1-got-to", 5)}
	byz := sym.Choice("byzantine-sends", 6)
	var msgs []*GMessage
	add := func(m *GMessage) {
		if m != nil {
			msgs = append(msgs, m)
		}
	}
	for ph := 1; ph <= 4; ph++ {
		for k, idx := range []int{0, 1} {
			if far[k] < ph {
				continue
			}
			switch ph {
			case 1:
				add(e.message(idx, 0, QUALITY_PHASE, input, 0, 0))
			case 2:
				add(e.message(idx, 0, PREPARE_PHASE, input, 0, 0))
			case 3:
				add(e.message(idx, 0, COMMIT_PHASE, input, 3, 0))
			default:
				add(e.message(idx, 0, DECIDE_PHASE, input, 4, 0))
			}
		}
		// Byzantine member: 0 silent, 1 foreign-base QUALITY only, 2 foreign-base PREPARE only,
		// 3 follows the protocol, 4 foreign QUALITY then follows, 5 QUALITY, foreign PREPARE, then follows
		switch {
		case byz == 0:
		case ph == 1 && (byz == 1 || byz == 4):
			add(e.message(verifByzIdx, 0, QUALITY_PHASE, foreign, 0, 0))
		case ph == 1 && (byz == 3 || byz == 5):
			add(e.message(verifByzIdx, 0, QUALITY_PHASE, input, 0, 0))
		case ph == 2 && (byz == 2 || byz == 5):
			add(e.message(verifByzIdx, 0, PREPARE_PHASE, foreign, 0, 0))
		case ph == 2 && (byz == 3 || byz == 4):
			add(e.message(verifByzIdx, 0, PREPARE_PHASE, input, 0, 0))
		case ph == 3 && byz >= 3:
			add(e.message(verifByzIdx, 0, COMMIT_PHASE, input, 3, 0))
		case ph == 4 && byz >= 3:
			add(e.message(verifByzIdx, 0, DECIDE_PHASE, input, 4, 0))
		}
	}
	queued := 0
	for _, m := range msgs {
		if e.deliver(m) {
			queued++
		}
	}
	sym.Assert(queued == len(msgs), "valid messages for the instance about to start are accepted (queued)")
	sym.Assert(len(e.h.broadcasts) == 0, "nothing is emitted before the instance starts")
	e.alarmNow() // the instance starts: queued messages are delivered
	sym.Cover("started-with-queue")
	// twin: same messages delivered directly after the start, in (round, phase) order
	d.start()
	for _, m := range msgs {
		d.deliver(m)
	}
	if len(d.h.decisions) == 1 {
		sym.Cover("twin-decided")
	}
	if byz == 1 || byz == 2 || byz == 4 || byz == 5 {
		sym.Cover("late-binding-failure-queued")
	}
	sym.Assert(len(e.h.decisions) == len(d.h.decisions), "T4: queued delivery decides exactly when direct delivery does")
	if len(e.h.decisions) == 1 && len(d.h.decisions) == 1 {
		sym.Assert(e.h.decisions[0].Vote.Value.Eq(d.h.decisions[0].Vote.Value), "T4: and decides the same value")
	}
	pe, pd := e.p.Progress(), d.p.Progress()
	sym.Assert(pe.ID == pd.ID && pe.Round == pd.Round && pe.Phase == pd.Phase, "T4: queued delivery reaches the same progress as direct delivery")
	sym.Assert(len(e.h.broadcasts) == len(d.h.broadcasts), "T4: and emits the same number of messages")
}

// VerifCore_DecideAnywhere: wherever the participant is (QUALITY, PREPARE or
// COMMIT of round 0, CONVERGE of round 1), a valid DECIDE for a value v (its
// input or a fork; justified by a COMMIT quorum of some round) moves it to the
// DECIDE phase with exactly one DECIDE of its own for v carrying a
// justification; a strong quorum of DECIDE votes then terminates the instance
// with v; no alarm is lost meanwhile (T2: any valid DECIDE -> DECIDE phase,
// strong DECIDE quorum -> terminate).
func VerifCore_DecideAnywhere() {
	input := VerifX(2)
	e := newVerifEnv(input, false)
	switch sym.Choice("where", 4) {
	case 0:
		e.start()
	case 1:
		e.quickToPrepare()
		sym.Assume(e.phase() == PREPARE_PHASE)
	case 2:
		e.quickToCommit()
		sym.Assume(e.phase() == COMMIT_PHASE)
	default:
		e.quickToRound1()
		sym.Assume(e.phase() == CONVERGE_PHASE)
	}
	v, _ := verifPick("decided-elsewhere", 2, 4)
	sym.Assume(v != nil)
	jround := uint64(1 + sym.Choice("commit-round-minus-1", 2))
	for _, idx := range []int{0, 1, verifByzIdx} {
		e.castVote(idx, jround, COMMIT_PHASE, v)
	}
	before := len(e.h.broadcasts)
	first := true
	for _, idx := range []int{0, 1, verifByzIdx} {
		if e.p.Progress().ID != verifInstance {
			break
		}
		if !sym.Bool("decide-vote") {
			continue
		}
		m := e.message(idx, 0, DECIDE_PHASE, v, 4, jround)
		if m == nil || !e.deliver(m) {
			continue
		}
		if first && e.p.Progress().ID == verifInstance {
			first = false
			sym.Cover("jumped-to-decide")
			sym.Assert(e.phase() == DECIDE_PHASE, "T2: a valid DECIDE moves the participant to the DECIDE phase")
			n := 0
			for _, mb := range e.h.broadcasts[before:] {
				if mb.Payload.Phase == DECIDE_PHASE {
					n++
					sym.Assert(mb.Payload.Value.Eq(v) && mb.Justification != nil && mb.Justification.Vote.Phase == COMMIT_PHASE, "its own DECIDE is for the same value and carries the COMMIT justification")
				}
			}
			sym.Assert(n == 1, "exactly one own DECIDE")
			sym.Assert(!e.h.alarm.IsZero(), "T1: a participant in DECIDE has a pending alarm")
		}
	}
	if len(e.h.decisions) == 1 {
		sym.Cover("decided")
		sym.Assert(e.h.decisions[0].Vote.Value.Eq(v), "decides the value of the DECIDE quorum")
	} else if !first {
		// in DECIDE without a quorum yet: a timeout only rebroadcasts
		e.fireAlarm(0)
		sym.Assert(e.phase() == DECIDE_PHASE && !e.h.alarm.IsZero(), "T1: stays in DECIDE with a pending alarm")
		sym.Cover("waiting-in-decide")
	}
}

// VerifCore_SkipRule (T3): a participant in round 0 (QUALITY or PREPARE) skips
// to round 1 exactly when it has received PREPAREs of round 1 from more than
// a third of the power (a weak quorum: at least one honest participant is
// there) together with a justified CONVERGE of round 1; with less it stays,
// with both it lands in CONVERGE of round 1 having emitted a valid CONVERGE.
func VerifCore_SkipRule() {
	input := VerifX(2)
	e := newVerifEnv(input, true)
	e.start()
	if !sym.Bool("from-quality") {
		e.echo(0)
		e.deliver(e.message(0, 0, QUALITY_PHASE, input, 0, 0))
		e.deliver(e.message(1, 0, QUALITY_PHASE, input, 0, 0))
		sym.Assume(e.phase() == PREPARE_PHASE)
	}
	for _, idx := range []int{0, 1, verifByzIdx} {
		e.castVote(idx, 0, COMMIT_PHASE, &ECChain{})
	}
	sym.Assume(e.justification(0, COMMIT_PHASE, &ECChain{}) != nil)
	// what arrives from round 1, in this order: optionally the CONVERGE, then PREPAREs
	withConverge := sym.Bool("converge-delivered")
	convergeFirst := sym.Bool("converge-first")
	deliverConverge := func() {
		if m := e.message(0, 1, CONVERGE_PHASE, input, 2, 0); m != nil {
			e.deliver(m)
		}
	}
	if withConverge && convergeFirst {
		deliverConverge()
	}
	var pw int64
	for _, idx := range []int{0, 1, verifByzIdx} {
		if e.p.Progress().Round == 0 && sym.Bool("prepare-from") {
			if m := e.message(idx, 1, PREPARE_PHASE, input, 2, 0); m != nil && e.deliver(m) {
				pw += e.power(idx)
			}
		}
	}
	if withConverge && !convergeFirst && e.p.Progress().Round == 0 {
		deliverConverge()
	}
	weak := 3*pw > e.total()
	skipped := e.p.Progress().Round == 1
	if skipped {
		sym.Cover("skipped")
		sym.Assert(e.phase() == CONVERGE_PHASE, "skip lands in CONVERGE of the new round")
		mb := e.lastBroadcast()
		sym.Assert(mb.Payload.Phase == CONVERGE_PHASE && mb.Payload.Round == 1 && mb.Justification != nil, "a skip emits a justified CONVERGE for the new round")
		sym.Assert(!e.h.alarm.IsZero(), "T1: an alarm is pending after the skip")
	} else {
		sym.Cover("stayed")
	}
	sym.Assert(skipped == (weak && withConverge), "T3: skips exactly on a weak PREPARE quorum of the later round plus a justified CONVERGE")
}

// VerifCore_WaitingAlarms (T1): a participant that cannot make progress
// (PREPARE or COMMIT of round 0 without a quorum of senders, DECIDE without a
// DECIDE quorum, PREPARE of round 1) receives four alarms, each delivered
// arbitrarily late, with arbitrary re-broadcast back-off durations: it never
// fails, never loses its alarm, keeps re-broadcasting, and every re-broadcast request covers what
// it has emitted for QUALITY, the current and the previous round (DECIDE only
// in the DECIDE phase).
func VerifCore_WaitingAlarms() {
	input := VerifX(2)
	e := newVerifEnv(input, false)
	switch sym.Choice("where", 4) {
	case 0:
		e.quickToPrepare()
		sym.Assume(e.phase() == PREPARE_PHASE)
	case 1:
		e.quickToCommit()
		sym.Assume(e.phase() == COMMIT_PHASE)
	case 2:
		e.quickToCommit()
		sym.Assume(e.phase() == COMMIT_PHASE)
		for _, idx := range []int{0, 1} {
			if m := e.message(idx, 0, COMMIT_PHASE, input, 3, 0); m != nil {
				e.deliver(m)
			}
		}
		sym.Assume(e.phase() == DECIDE_PHASE)
	default:
		e.quickToRound1()
		sym.Assume(e.phase() == CONVERGE_PHASE)
		e.fireAlarm(0)
		sym.Assume(e.phase() == PREPARE_PHASE && e.p.Progress().Round == 1)
	}
	var backoff [2]time.Duration // first re-broadcast delay, then the later ones
	for k := range backoff {
		d := sym.Int64("rebroadcast-after-ns")
		sym.Assume(sym.And(d >= int64(time.Millisecond), d <= int64(10*time.Minute)))
		backoff[k] = time.Duration(d)
	}
	e.p.options.rebroadcastAfter = func(n int) time.Duration { return backoff[min(n, 1)] }
	startPhase, startRound := e.phase(), e.p.Progress().Round
	steps := 0
	for k := 0; k < 4; k++ {
		late := sym.Int64("alarm-late-ns")
		sym.Assume(sym.And(late >= 0, late <= int64(time.Hour)))
		sym.Assert(!e.h.alarm.IsZero(), "T1: an alarm is pending while waiting")
		before := len(e.h.rebroadcast)
		e.fireAlarm(time.Duration(late))
		sym.Assert(e.phase() == startPhase && e.p.Progress().Round == startRound, "stays in its phase without new messages")
		// (the alarm may lie in the past when the alarm was delivered late: the
		// host then fires it at once, so it is pending all the same)
		sym.Assert(!e.h.alarm.IsZero(), "T1: after an alarm a new alarm is pending")
		if len(e.h.rebroadcast) > before {
			steps++
			sym.Cover("rebroadcast")
			req := map[verifSlot]bool{}
			for _, in := range e.h.rebroadcast[before:] {
				sym.Assert(in.ID == verifInstance, "re-broadcast requests are for the current instance")
				req[verifSlot{in.Round, in.Phase}] = true
			}
			for s := range e.emitted {
				relevant := s.phase == QUALITY_PHASE || s.round == startRound || s.round+1 == startRound
				if startPhase == DECIDE_PHASE {
					relevant = s.phase == DECIDE_PHASE
				} else if s.phase == DECIDE_PHASE {
					relevant = false
				}
				if relevant {
					sym.Assert(req[s], "a re-broadcast covers everything emitted for QUALITY, the current and the previous round")
				}
			}
		}
	}
	sym.Assert(steps >= 2, "keeps re-broadcasting while it waits")
}

// VerifCore_PrepareBacklog (R7): the participant lags: while it is still in
// QUALITY, round-0 PREPAREs of its peers arrive (for what will be its
// proposal, or for bottom; the Byzantine member may sign for the proposal and
// send bottom) and possibly a peer's COMMIT for the proposal carrying proof of
// a strong PREPARE quorum.  Then QUALITY and PREPARE time out.  It never
// commits bottom while it holds a strong PREPARE quorum for its proposal or
// proof of one; it commits the proposal only with such a quorum or proof.
func VerifCore_PrepareBacklog() {
	input := VerifX(2)
	e := newVerifEnv(input, true)
	e.start()
	proposal := VerifX(1) // no QUALITY votes arrive: the proposal after the timeout is the base
	for _, idx := range []int{0, 1, verifByzIdx} {
		switch sym.Choice("prepare-vote", 4) {
		case 1: // for the proposal, delivered
			if m := e.message(idx, 0, PREPARE_PHASE, proposal, 0, 0); m != nil {
				e.deliver(m)
			}
		case 2: // signs for the proposal; not delivered (the Byzantine member sends bottom instead)
			e.castVote(idx, 0, PREPARE_PHASE, proposal)
			if idx == verifByzIdx {
				if m := e.message(idx, 0, PREPARE_PHASE, &ECChain{}, 0, 0); m != nil {
					e.deliver(m)
				}
			}
		case 3: // for bottom, delivered
			if m := e.message(idx, 0, PREPARE_PHASE, &ECChain{}, 0, 0); m != nil {
				e.deliver(m)
			}
		}
	}
	proofHeld := false
	if sym.Bool("commit-with-proof-arrives") {
		if m := e.message(sym.Choice("commit-sender", 2), 0, COMMIT_PHASE, proposal, 3, 0); m != nil && e.deliver(m) {
			proofHeld = true
			sym.Cover("proof-held")
		}
	}
	sym.Assume(e.phase() == QUALITY_PHASE)
	e.fireAlarm(0) // QUALITY times out
	sym.Assume(e.phase() == PREPARE_PHASE || e.phase() == COMMIT_PHASE)
	if e.phase() == PREPARE_PHASE {
		sym.Assume(e.lastBroadcast().Payload.Value.Eq(proposal))
		if sym.Bool("echo-own-prepare") {
			e.echo(len(e.h.broadcasts) - 1)
		}
	}
	if e.phase() == PREPARE_PHASE {
		e.fireAlarm(0) // PREPARE times out
	}
	forP, all := e.tally(0, PREPARE_PHASE, proposal)
	strong := IsStrongQuorum(forP, e.total())
	if e.phase() == PREPARE_PHASE {
		sym.Cover("waits")
		sym.Assert(!proofHeld && !strong && !IsStrongQuorum(all, e.total()), "T2: PREPARE ends at its timeout with proof, a quorum, or a strong quorum of senders")
		return
	}
	var commit *MessageBuilder
	for _, mb := range e.h.broadcasts {
		if mb.Payload.Phase == COMMIT_PHASE && mb.Payload.Round == 0 {
			commit = mb
		}
	}
	sym.Assert(commit != nil, "emits COMMIT for round 0")
	if commit == nil {
		return
	}
	if commit.Payload.Value.IsZero() {
		sym.Cover("commit-bottom")
		sym.Assert(!strong, "R7: never commits bottom while holding a strong PREPARE quorum for its proposal")
		sym.Assert(!proofHeld, "R7: never commits bottom while holding proof of a strong PREPARE quorum for its proposal")
	} else {
		sym.Cover("commit-proposal")
		sym.Assert(commit.Payload.Value.Eq(proposal) && commit.Justification != nil, "commits its proposal with a justification")
		sym.Assert(strong || proofHeld, "V3/R8: commits a value only on a strong PREPARE quorum or proof of one")
	}
}

// VerifCore_LateQuality (T2/R6, progress): QUALITY times out before any vote
// arrives, so the proposal shrinks to the base; the peers' QUALITY votes for
// (a prefix of) the input arrive late.  Round 0 then fails with COMMIT bottom.
// In round 1 the participant adopts a peer's best-ticket CONVERGE value when
// it is a prefix of its own input backed by a strong quorum of the (late)
// QUALITY votes — otherwise rounds would keep failing although everybody
// honest could agree on that value.
func VerifCore_LateQuality() {
	input := VerifX(3) // [b,2,3]
	e := newVerifEnv(input, false)
	e.start()
	e.fireAlarm(0) // QUALITY times out without any vote
	sym.Assume(e.phase() == PREPARE_PHASE)
	sym.Assert(e.lastBroadcast().Payload.Value.Eq(VerifX(1)), "R5: without QUALITY votes the proposal is the base")
	// late QUALITY votes: each peer voted for the input, its prefix [b,2], or nothing arrives
	for _, idx := range []int{0, 1} {
		if v, _ := verifPick("late-quality", 3, 2); v != nil {
			if m := e.message(idx, 0, QUALITY_PHASE, v, 0, 0); m != nil {
				e.deliver(m)
			}
		}
	}
	if sym.Bool("echo-own-quality") {
		e.echo(0)
	}
	backed := VerifX(1)
	for _, n := range []int{3, 2} {
		if IsStrongQuorum(e.qualitySupport(VerifX(n)), e.total()) {
			backed = VerifX(n)
			break
		}
	}
	// round 0 fails: the peers prepared something else, everybody commits bottom
	for _, idx := range []int{0, 1} {
		e.deliver(e.message(idx, 0, PREPARE_PHASE, backed, 0, 0))
	}
	if e.phase() == PREPARE_PHASE {
		e.fireAlarm(0)
	}
	sym.Assume(e.phase() == COMMIT_PHASE)
	for _, idx := range []int{0, 1} {
		if e.phase() == COMMIT_PHASE {
			e.deliver(e.message(idx, 0, COMMIT_PHASE, &ECChain{}, 0, 0))
		}
	}
	if e.phase() == COMMIT_PHASE {
		e.fireAlarm(0)
	}
	sym.Assume(e.phase() == CONVERGE_PHASE && e.p.Progress().Round == 1)
	// a peer converges on the value the QUALITY votes back
	m := e.message(0, 1, CONVERGE_PHASE, backed, 2, 0)
	sym.Assume(m != nil && e.deliver(m))
	sym.Assume(e.phase() == CONVERGE_PHASE)
	e.fireAlarm(0)
	sym.Assert(e.phase() == PREPARE_PHASE && e.p.Progress().Round == 1, "T2: CONVERGE ends at its timeout")
	mb := e.lastBroadcast()
	if backed.Len() > 1 {
		sym.Cover("late-quality-backs-a-longer-prefix")
	} else {
		sym.Cover("only-the-base-is-backed")
	}
	sym.Assert(mb.Payload.Phase == PREPARE_PHASE && mb.Payload.Value.Eq(backed), "R6: adopts the best-ticket CONVERGE value that is a QUALITY-backed prefix of its input, even when the QUALITY votes arrived late")
}

// VerifC15_ParticipantTruncation: whatever chain the host proposes, the
// participant starts the instance with its first min(len, 128) tipsets (the
// protocol maximum), refuses an empty or malformed chain with an error, and
// proposes nothing in that case.
func VerifC15_ParticipantTruncation() {
	n := []int{0, 1, 2, 127, 128, 129, 200}[sym.Choice("host-chain-length", 7)]
	malformed := n >= 2 && sym.Bool("malformed")
	var chain *ECChain
	if n == 0 {
		chain = &ECChain{}
	} else {
		var tags []byte
		for i := 1; i < n; i++ {
			tags = append(tags, byte(i))
		}
		chain = VerifChain(10, 1, tags...)
		for i, ts := range chain.TipSets { // distinct keys beyond 255 tipsets are not needed: n <= 200
			ts.Key = TipSetKey{byte(i), byte(i >> 8), 7}
		}
		if malformed {
			chain.TipSets[1].Epoch = chain.TipSets[0].Epoch // not increasing
		}
	}
	e := newVerifEnv(chain, false)
	sym.Assert(e.p.StartInstanceAt(verifInstance, e.h.now) == nil, "StartInstanceAt succeeds")
	err := e.p.ReceiveAlarm(context.Background())
	sym.Cover("started")
	if n == 0 || malformed {
		sym.Assert(err != nil && len(e.h.broadcasts) == 0, "an empty or malformed host chain is refused and nothing is proposed")
		return
	}
	sym.Assert(err == nil && len(e.h.broadcasts) == 1, "the instance starts with one QUALITY")
	if err != nil || len(e.h.broadcasts) != 1 {
		return
	}
	v := e.h.broadcasts[0].Payload.Value
	want := min(n, ChainMaxLen)
	if n > ChainMaxLen {
		sym.Cover("truncated")
	}
	sym.Assert(v.Len() == want && chain.HasPrefix(v) && v.Validate() == nil, "the proposal is the first min(len, 128) tipsets of the host's chain")
}
