//go:build verif

package gpbft

// Driver and universal monitors for the participant-level harnesses
// (C01, C02, C03, C06, C07).  A real Participant is driven through its public
// API (StartInstanceAt / ReceiveAlarm / ReceiveMessage with messages that pass
// the real validator) by scenario harnesses; after every step the monitors
// below assert the local obligations of DESIGN §5 on what the participant
// emitted, on its progress and on its decisions.

import (
	"context"
	"errors"
	"time"

	"github.com/filecoin-project/go-f3/internal/caching"
	sym "github.com/filecoin-project/go-f3/internal/verifsym"
)

const (
	verifInstance = uint64(7)
	verifSelfIdx  = 2 // the participant under test is committee entry 2 (ID 3)
	verifByzIdx   = 3 // entry 3 (ID 4) is Byzantine; entries 0 and 1 are honest peers
)

type verifHost struct {
	c     *Committee
	input *ECChain
	now   time.Time

	alarm       time.Time
	alarms      int
	broadcasts  []*MessageBuilder
	rebroadcast []Instant
	decisions   []*Justification
}

var _ Host = (*verifHost)(nil)

func (h *verifHost) GetProposal(context.Context, uint64) (*SupplementalData, *ECChain, error) {
	s := VerifSupp()
	return &s, h.input, nil
}
func (h *verifHost) GetCommittee(_ context.Context, instance uint64) (*Committee, error) {
	if instance > verifInstance+4 {
		return nil, errors.New("verif: no committee")
	}
	return h.c, nil
}
func (h *verifHost) NetworkName() NetworkName { return VerifNN }
func (h *verifHost) RequestBroadcast(mb *MessageBuilder) error {
	h.broadcasts = append(h.broadcasts, mb)
	return nil
}
func (h *verifHost) RequestRebroadcast(i Instant) error {
	h.rebroadcast = append(h.rebroadcast, i)
	return nil
}
func (h *verifHost) Time() time.Time       { return h.now }
func (h *verifHost) SetAlarm(at time.Time) { h.alarm = at; h.alarms++ }
func (h *verifHost) Verify(pk PubKey, msg, sig []byte) error {
	return VerifCrypto{}.Verify(pk, msg, sig)
}
func (h *verifHost) Aggregate(keys []PubKey) (Aggregate, error) {
	return VerifCrypto{}.Aggregate(keys)
}
func (h *verifHost) ReceiveDecision(_ context.Context, d *Justification) (time.Time, error) {
	h.decisions = append(h.decisions, d)
	return h.now.Add(time.Hour), nil
}

// verifVote is one vote slot of a peer: what it voted at (round, phase), if anything.
type verifSlot struct {
	round uint64
	phase Phase
}

type verifEnv struct {
	self  int // committee entry of the participant under test
	p     *Participant
	h     *verifHost
	c     *Committee
	input *ECChain

	// votes cast (= signatures that exist) per committee entry: at most one per
	// slot for the honest entries 0,1 and for self; the Byzantine entry may sign anything.
	votes [4]map[verifSlot]*ECChain

	// monitor state
	seenBroadcasts int
	emitted        map[verifSlot]bool
	decideEmitted  int
	lastProgress   InstanceProgress
	delivered      []*GMessage
	decideVotes    map[ActorID]*ECChain // DECIDE messages delivered to the participant
	stepErr        error
	tolerateAlarmError bool // the scenario asserts on stepErr itself (known-finding discriminator)
}

// verifSymbolicPowers replaces the committee's scaled powers by arbitrary
// values under the power table's representation invariant, with the Byzantine
// entry below one third (the adversary bound of the properties).
func verifSymbolicPowers(c *Committee) {
	pt := c.PowerTable
	var total int64
	for i := 0; i < 4; i++ {
		s := int64(sym.Uint16("scaled-power"))
		sym.Assume(s >= 1)
		pt.ScaledPower[i] = s
		total += s
	}
	pt.ScaledPower[4] = 0
	sym.Assume(total <= 0xffff)
	pt.ScaledTotal = total
	sym.Assume(3*pt.ScaledPower[verifByzIdx] < total)
}

// verifPowerClass sets the scaled powers to one of a few representative
// distributions (each a different family of strong/weak quorums); the
// Byzantine entry always holds less than one third.
func verifPowerClass(c *Committee) {
	pt := c.PowerTable
	var s [4]int64
	switch sym.Choice("power-class", 4) {
	case 0: // as scaled from raw powers 4:3:2:1 — {0,1} is a strong quorum
		return
	case 1: // equal powers: any three of four
		s = [4]int64{16383, 16383, 16383, 16383}
	case 2: // entry 0 alone is a strong quorum
		s = [4]int64{43691, 10922, 5461, 5461}
	default: // Byzantine entry just below one third; self nearly powerless
		s = [4]int64{22000, 21800, 100, 21600}
	}
	var total int64
	for i := range s {
		pt.ScaledPower[i] = s[i]
		total += s[i]
	}
	pt.ScaledPower[4] = 0
	pt.ScaledTotal = total
}

func newVerifEnv(input *ECChain, symbolicPowers bool) *verifEnv {
	c := VerifNewCommittee()
	if symbolicPowers && sym.Tier() == 1 && sym.Bool("fully-symbolic-powers") {
		verifSymbolicPowers(c)
	} else if symbolicPowers {
		verifPowerClass(c)
	}
	return newVerifEnvOver(c, input)
}

// newVerifEnvOver: a participant environment over a given (possibly shared) committee.
func newVerifEnvOver(c *Committee, input *ECChain) *verifEnv {
	h := &verifHost{c: c, input: input, now: time.Unix(1000, 0)}
	p, err := NewParticipant(h, WithMaxLookaheadRounds(1))
	if err != nil {
		panic(err)
	}
	p.options.rebroadcastAfter = func(int) time.Duration { return 3 * time.Second }
	e := &verifEnv{self: verifSelfIdx, p: p, h: h, c: c, input: input, emitted: map[verifSlot]bool{}, decideVotes: map[ActorID]*ECChain{}}
	for i := range e.votes {
		e.votes[i] = map[verifSlot]*ECChain{}
	}
	return e
}

func (e *verifEnv) power(idx int) int64 { return e.c.PowerTable.ScaledPower[idx] }
func (e *verifEnv) total() int64        { return e.c.PowerTable.ScaledTotal }

// start begins the instance: StartInstanceAt + the start alarm.
func (e *verifEnv) start() {
	sym.Assert(e.p.StartInstanceAt(verifInstance, e.h.now) == nil, "R4: StartInstanceAt succeeds")
	e.lastProgress = e.p.Progress()
	e.alarmNow()
}

// castVote records that entry idx signs a vote for v at (round, phase); honest
// entries and self sign at most one value per slot.
func (e *verifEnv) castVote(idx int, round uint64, phase Phase, v *ECChain) bool {
	s := verifSlot{round, phase}
	if old, ok := e.votes[idx][s]; ok && idx != verifByzIdx {
		return old.Eq(v) || (old.IsZero() && v.IsZero())
	}
	e.votes[idx][s] = v
	return true
}

func (e *verifEnv) voted(idx int, round uint64, phase Phase, v *ECChain) bool {
	if idx == verifByzIdx {
		return true // the adversary signs whatever helps it
	}
	old, ok := e.votes[idx][verifSlot{round, phase}]
	return ok && (old.Eq(v) || (old.IsZero() && v.IsZero()))
}

// justification builds a strong-quorum certificate for (round, phase, v) from
// signatures that exist (votes cast by honest entries, anything from the
// Byzantine entry); nil if no strong quorum of such signatures exists.
func (e *verifEnv) justification(round uint64, phase Phase, v *ECChain) *Justification {
	var signers []int
	var pw int64
	for idx := 0; idx < 4; idx++ {
		if e.voted(idx, round, phase, v) {
			signers = append(signers, idx)
			pw += e.power(idx)
		}
	}
	if !IsStrongQuorum(pw, e.total()) {
		return nil
	}
	if v.IsZero() {
		v = &ECChain{}
	}
	return VerifJustification(e.c, verifInstance, round, phase, v, signers...)
}

// message builds the message entry idx would send for (round, phase, v), with
// the justification kind asked for, if the signatures it needs exist.
// jkind: 0 none, 1 PREPARE(round-1,v), 2 COMMIT(round-1,bottom), 3 PREPARE(round,v), 4 COMMIT(jround,v)
func (e *verifEnv) message(idx int, round uint64, phase Phase, v *ECChain, jkind int, jround uint64) *GMessage {
	var j *Justification
	switch jkind {
	case 1:
		j = e.justification(round-1, PREPARE_PHASE, v)
	case 2:
		j = e.justification(round-1, COMMIT_PHASE, &ECChain{})
	case 3:
		j = e.justification(round, PREPARE_PHASE, v)
	case 4:
		j = e.justification(jround, COMMIT_PHASE, v)
	}
	if jkind != 0 && j == nil {
		return nil
	}
	if !e.castVote(idx, round, phase, v) {
		return nil
	}
	return VerifMessage(e.c, idx, verifInstance, round, phase, v, j)
}

// deliver validates m with the participant's real validator and, if it is
// accepted, delivers it; then runs the monitors.
func (e *verifEnv) deliver(m *GMessage) bool {
	ctx := context.Background()
	vm, err := e.p.ValidateMessage(ctx, m)
	if err != nil {
		return false
	}
	// A4 authenticity: a message accepted in the name of an honest member was signed by it
	for idx := range e.votes {
		if idx != verifByzIdx && idx < len(e.c.PowerTable.Entries) && e.c.PowerTable.Entries[idx].ID == m.Sender {
			sym.Assert(e.voted(idx, m.Vote.Round, m.Vote.Phase, m.Vote.Value), "A4: a message accepted in the name of an honest member was signed by that member")
		}
	}
	if m.Vote.Phase == DECIDE_PHASE && e.p.Progress().ID == verifInstance {
		if _, dup := e.decideVotes[m.Sender]; !dup {
			e.decideVotes[m.Sender] = m.Vote.Value
		}
	}
	e.delivered = append(e.delivered, m)
	err = e.p.ReceiveMessage(ctx, vm)
	e.stepErr = err
	sym.Assert(err == nil || errors.As(err, &ValidationError{}) && !errors.Is(err, ErrReceivedInternalError) || isLateBinding(err),
		"R4: a validated message never yields an internal error")
	e.monitor()
	return true
}

// replayUnderOtherKey: the adversary takes a member's genuine message in its
// wire (partial) form, lets the participant see it, and then presents the same
// bytes announced under the key of another chain, completing it with that
// chain.  It must be refused at one of the two validation stages; if it gets
// through it is delivered (and the authenticity monitor A4 fires).
func (e *verifEnv) replayUnderOtherKey(m *GMessage, other *ECChain) bool {
	ctx := context.Background()
	strip := func() *PartialGMessage {
		c := *m
		pm := &PartialGMessage{GMessage: &c, VoteValueKey: m.Vote.Value.Key()}
		pm.Vote.Value = &ECChain{}
		if m.Justification != nil && !m.Justification.Vote.Value.IsZero() {
			j := *m.Justification
			j.Vote.Value = &ECChain{}
			pm.Justification = &j
		}
		return pm
	}
	if _, err := e.p.PartiallyValidateMessage(ctx, strip()); err != nil {
		return false
	}
	replay := strip()
	replay.VoteValueKey = other.Key()
	pv, err := e.p.PartiallyValidateMessage(ctx, replay)
	if err != nil {
		return false
	}
	pm := pv.PartialMessage()
	pm.Vote.Value = other
	if pm.Justification != nil && pm.Justification.Vote.Value.IsZero() && m.Justification != nil && !m.Justification.Vote.Value.IsZero() {
		pm.Justification.Vote.Value = other
	}
	vm, err := e.p.FullyValidateMessage(ctx, pv)
	if err != nil {
		return false
	}
	g := vm.Message()
	for idx := range e.votes {
		if idx != verifByzIdx && idx < len(e.c.PowerTable.Entries) && e.c.PowerTable.Entries[idx].ID == g.Sender {
			sym.Assert(e.voted(idx, g.Vote.Round, g.Vote.Phase, g.Vote.Value), "A4: a message accepted in the name of an honest member was signed by that member")
		}
	}
	e.stepErr = e.p.ReceiveMessage(ctx, vm)
	e.monitor()
	return true
}

func isLateBinding(err error) bool {
	return errors.Is(err, ErrValidationWrongBase) || errors.Is(err, ErrValidationWrongSupplement)
}

func (e *verifEnv) alarmNow() {
	err := e.p.ReceiveAlarm(context.Background())
	e.stepErr = err
	if !e.tolerateAlarmError {
		sym.Assert(err == nil, "R4: an alarm never yields an internal error")
	}
	e.monitor()
}

// advance moves the clock to the pending alarm (plus `late`) and fires it.
func (e *verifEnv) fireAlarm(late time.Duration) {
	if e.h.alarm.After(e.h.now) {
		e.h.now = e.h.alarm
	}
	e.h.now = e.h.now.Add(late)
	e.alarmNow()
}

// echo delivers the participant's own i-th broadcast back to it (as the host does).
func (e *verifEnv) echo(i int) {
	mb := e.h.broadcasts[i]
	m, err := mb.Build(context.Background(), VerifCrypto{}, e.c.PowerTable.Entries[e.self].ID)
	if err != nil {
		return
	}
	e.deliver(m)
}

func phaseOrder(p Phase) int { return int(p) }

func progressLE(a, b InstanceProgress) bool {
	if a.ID != b.ID {
		return a.ID < b.ID
	}
	// within an instance the round never decreases (entering DECIDE or terminating
	// keeps the round), and within a round the step never decreases
	if a.Round != b.Round {
		return a.Round < b.Round
	}
	if a.Phase == TERMINATED_PHASE || b.Phase == TERMINATED_PHASE {
		return b.Phase == TERMINATED_PHASE || a.Phase != TERMINATED_PHASE
	}
	if a.Phase == DECIDE_PHASE || b.Phase == DECIDE_PHASE {
		return b.Phase == DECIDE_PHASE || a.Phase != DECIDE_PHASE
	}
	return phaseOrder(a.Phase) <= phaseOrder(b.Phase)
}

// hasProof: the participant has been shown a strong quorum for v (a delivered
// message for v carrying a justification, or delivered votes).
func (e *verifEnv) hasProof(v *ECChain) bool {
	for _, m := range e.delivered {
		if m.Justification != nil && m.Vote.Value.Eq(v) && !m.Justification.Vote.Value.IsZero() {
			return true
		}
		if m.Justification != nil && m.Justification.Vote.Value.Eq(v) {
			return true
		}
	}
	// a strong quorum of delivered votes for v in one slot
	type key struct {
		s verifSlot
	}
	sums := map[verifSlot]int64{}
	seen := map[verifSlot]map[ActorID]bool{}
	for _, m := range e.delivered {
		ok := m.Vote.Value.Eq(v)
		if m.Vote.Phase == QUALITY_PHASE {
			ok = m.Vote.Value.HasPrefix(v)
		}
		if !ok {
			continue
		}
		s := verifSlot{m.Vote.Round, m.Vote.Phase}
		if seen[s] == nil {
			seen[s] = map[ActorID]bool{}
		}
		if seen[s][m.Sender] {
			continue
		}
		seen[s][m.Sender] = true
		pw, _ := e.c.PowerTable.Get(m.Sender)
		sums[s] += pw
	}
	for _, pw := range sums {
		if IsStrongQuorum(pw, e.total()) {
			return true
		}
	}
	return false
}

// monitor: obligations checked after every step.
func (e *verifEnv) monitor() {
	ctx := context.Background()
	// R3: progress never moves backwards
	cur := e.p.Progress()
	sym.Assert(progressLE(e.lastProgress, cur), "R3: progress never moves backwards")
	e.lastProgress = cur

	// what was emitted during this step
	for ; e.seenBroadcasts < len(e.h.broadcasts); e.seenBroadcasts++ {
		mb := e.h.broadcasts[e.seenBroadcasts]
		pl := mb.Payload
		s := verifSlot{pl.Round, pl.Phase}
		// R1 / A1: at most one message per instance, round and step
		sym.Assert(!e.emitted[s], "R1: at most one message per instance, round and step")
		e.emitted[s] = true
		if pl.Phase == DECIDE_PHASE {
			e.decideEmitted++
			sym.Assert(e.decideEmitted == 1 && pl.Round == 0, "A1: at most one DECIDE, at round 0")
		}
		sym.Assert(pl.Instance == verifInstance, "R2: emitted for the current instance")
		// self's signature now exists
		e.votes[e.self][s] = pl.Value
		// R2: everything emitted is valid for peers: build it with the real
		// builder and validate it with a fresh real validator at the sender's progress
		m, err := mb.Build(ctx, VerifCrypto{}, e.c.PowerTable.Entries[e.self].ID)
		sym.Assert(err == nil, "R2: the emitted message can be built and signed")
		if err == nil {
			prog := InstanceProgress{Instant: Instant{ID: verifInstance, Round: pl.Round, Phase: QUALITY_PHASE}}
			v := newValidator(VerifNN, VerifCrypto{}, &verifCommittees{from: 0, to: 100, c: e.c}, func() InstanceProgress { return prog }, caching.NewGroupedSet(2, 8), 5)
			_, verr := v.ValidateMessage(ctx, m)
			sym.Assert(verr == nil, "R2: every emitted message is valid for its peers")
		}
		// R8 / V2: only votes for a prefix of its own input or a value with proof of a strong quorum
		if !pl.Value.IsZero() {
			sym.Assert(e.input.HasPrefix(pl.Value) || e.hasProof(pl.Value), "R8: votes only for a prefix of its input or a value with proof of a strong quorum")
			sym.Assert(pl.Value.HasBase(e.input.Base()), "V1: every vote is on the instance base")
		}
	}

	// decisions: A2, V1, C03
	if len(e.h.decisions) > 0 {
		d := e.h.decisions[len(e.h.decisions)-1]
		sym.Assert(len(e.h.decisions) == 1, "one decision per instance")
		v := d.Vote.Value
		sym.Assert(!v.IsZero() && v.HasBase(e.input.Base()), "V1: the decision is non-empty and starts at the instance base")
		var pw int64
		for id, dv := range e.decideVotes {
			if dv.Eq(v) {
				x, _ := e.c.PowerTable.Get(id)
				pw += x
			}
		}
		sym.Assert(IsStrongQuorum(pw, e.total()), "A2: a decision is backed by a strong quorum of delivered DECIDE votes for it")
		e.checkDecisionProof(d)
	}
}

// checkDecisionProof: C03 — the reported justification is a self-contained proof.
func (e *verifEnv) checkDecisionProof(d *Justification) {
	sym.Assert(d.Vote.Instance == verifInstance && d.Vote.Round == 0 && d.Vote.Phase == DECIDE_PHASE, "C03: decision is for this instance, round 0, DECIDE")
	supp := VerifSupp()
	sym.Assert(verifSuppEq(&d.Vote.SupplementalData, &supp), "C03: decision carries the instance's supplemental data")
	pw, signers, err := d.GetSigners(e.c.PowerTable)
	sym.Assert(err == nil, "C03: signers are committee members with non-zero scaled power")
	if err != nil {
		return
	}
	for i := 1; i < len(signers); i++ {
		sym.Assert(signers[i-1] < signers[i], "C03: signers are distinct")
	}
	sym.Assert(IsStrongQuorum(pw, e.total()), "C03: signers form a strong quorum")
	agg := VerifAggregateSig(e.c.PowerTable.Entries.PublicKeys(), signers, d.Vote.MarshalForSigning(VerifNN))
	sym.Assert(string(agg) == string(d.Signature), "C03: the aggregate verifies over exactly the decided value")
}
