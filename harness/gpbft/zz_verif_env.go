//go:build verif

package gpbft

import (
	"context"
	"errors"

	"github.com/filecoin-project/go-bitfield"
	sym "github.com/filecoin-project/go-f3/internal/verifsym"
)

const VerifNN = NetworkName("verif")

var verifBeacon = []byte{0xbe, 0xac, 0x07}

// VerifCommittee: 5 members; raw powers 4,3,2,1 and one dust member whose
// scaled power is zero.  IDs 1..5, canonical order.
func VerifCommitteeEntries() PowerEntries { return VerifEntries(40000, 30000, 20000, 10000, 1) }

func VerifPowerTable() *PowerTable {
	pt := NewPowerTable()
	if err := pt.Add(VerifCommitteeEntries()...); err != nil {
		panic(err)
	}
	return pt
}

func VerifNewCommittee() *Committee {
	pt := VerifPowerTable()
	agg, _ := VerifCrypto{}.Aggregate(pt.Entries.PublicKeys())
	return &Committee{PowerTable: pt, Beacon: verifBeacon, AggregateVerifier: agg}
}

// verifCommittees serves the same committee for instances in [from, to).
type verifCommittees struct {
	from, to uint64
	c        *Committee
}

func (v *verifCommittees) GetCommittee(_ context.Context, instance uint64) (*Committee, error) {
	if instance < v.from || instance >= v.to {
		return nil, errors.New("verif: no committee")
	}
	return v.c, nil
}

func VerifSupp() SupplementalData { return SupplementalData{PowerTable: MakeCid([]byte("verif-next-table"))} }

// chain universe over base (10, tag 1)
func VerifX(n int) *ECChain {
	switch n {
	case 0:
		return &ECChain{} // bottom
	case 1:
		return VerifChain(10, 1) // base only
	case 2:
		return VerifChain(10, 1, 2)
	case 3:
		return VerifChain(10, 1, 2, 3)
	case 4:
		return VerifChain(10, 1, 4) // fork after the base
	default:
		return VerifChain(10, 9, 2) // foreign base
	}
}

func VerifBitfield(idx ...int) bitfield.BitField {
	var u []uint64
	for _, i := range idx {
		u = append(u, uint64(i))
	}
	return bitfield.NewFromSet(u)
}

// VerifJustification: ideal strong-quorum justification for (instance, round, phase, value) by the given signers.
func VerifJustification(c *Committee, instance, round uint64, phase Phase, value *ECChain, signers ...int) *Justification {
	p := Payload{Instance: instance, Round: round, Phase: phase, SupplementalData: VerifSupp(), Value: value}
	return &Justification{Vote: p, Signers: VerifBitfield(signers...),
		Signature: VerifAggregateSig(c.PowerTable.Entries.PublicKeys(), signers, p.MarshalForSigning(VerifNN))}
}

// VerifMessage: a correctly signed message from member index `sender`.
func VerifMessage(c *Committee, sender int, instance, round uint64, phase Phase, value *ECChain, j *Justification) *GMessage {
	e := c.PowerTable.Entries[sender]
	p := Payload{Instance: instance, Round: round, Phase: phase, SupplementalData: VerifSupp(), Value: value}
	m := &GMessage{Sender: e.ID, Vote: p, Signature: VerifSign(e.PubKey, p.MarshalForSigning(VerifNN)), Justification: j}
	if phase == CONVERGE_PHASE {
		m.Ticket = VerifSign(e.PubKey, vrfSerializeSigInput(c.Beacon, instance, round, VerifNN))
	}
	return m
}

var _ = sym.Bool

// verifSuppEq compares supplemental data field by field (the oracles do not
// rely on the implementation's own comparison).
func verifSuppEq(a, b *SupplementalData) bool {
	eq := true
	for i := range a.Commitments {
		eq = sym.And(eq, a.Commitments[i] == b.Commitments[i])
	}
	return sym.And(eq, string(a.PowerTable.Bytes()) == string(b.PowerTable.Bytes()))
}
