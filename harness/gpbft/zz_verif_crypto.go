//go:build verif

package gpbft

import (
	"bytes"
	"context"
	"encoding/binary"
	"errors"

	sym "github.com/filecoin-project/go-f3/internal/verifsym"
)

// VerifCrypto is the ideal signature scheme used by all harnesses (DESIGN §4.1):
// Sign(pk,msg) = H_sig(pk ‖ msg); an aggregate over signers S of msg is
// H_agg(all keys of the committee ‖ Sign(pk_i,msg) for i in S, in mask order)
// — like BLS with BDN coefficients, an aggregate is bound to the whole key
// list it was made for, not only to the signers' keys.  H is verifsym.Hash
// (uninterpreted + injective on symbolic data, sha256 natively).
type VerifCrypto struct{}

var _ Verifier = VerifCrypto{}
var _ Signer = VerifCrypto{}

func verifLP(parts ...[]byte) []byte {
	var b bytes.Buffer
	for _, p := range parts {
		var l [4]byte
		binary.BigEndian.PutUint32(l[:], uint32(len(p)))
		b.Write(l[:])
		b.Write(p)
	}
	return b.Bytes()
}

func VerifSign(pk PubKey, msg []byte) []byte { return sym.Hash("sig", verifLP(pk, msg)) }

func (VerifCrypto) Sign(_ context.Context, pk PubKey, msg []byte) ([]byte, error) {
	return VerifSign(pk, msg), nil
}

func (VerifCrypto) Verify(pk PubKey, msg, sig []byte) error {
	if !bytes.Equal(sig, VerifSign(pk, msg)) {
		return errors.New("verif: invalid signature")
	}
	return nil
}

type verifAggregate struct{ keys []PubKey }

func (VerifCrypto) Aggregate(keys []PubKey) (Aggregate, error) {
	return &verifAggregate{keys: keys}, nil
}

func (a *verifAggregate) Aggregate(mask []int, sigs [][]byte) ([]byte, error) {
	if len(mask) != len(sigs) {
		return nil, errors.New("verif: mask/signature count mismatch")
	}
	for _, i := range mask {
		if i < 0 || i >= len(a.keys) {
			return nil, errors.New("verif: signer index out of range")
		}
	}
	return sym.Hash("agg", verifLP(append([][]byte{verifKeySet(a.keys)}, sigs...)...)), nil
}

func (a *verifAggregate) VerifyAggregate(mask []int, msg, sig []byte) error {
	sigs := make([][]byte, len(mask))
	for k, i := range mask {
		if i < 0 || i >= len(a.keys) {
			return errors.New("verif: signer index out of range")
		}
		sigs[k] = VerifSign(a.keys[i], msg)
	}
	if !bytes.Equal(sig, sym.Hash("agg", verifLP(append([][]byte{verifKeySet(a.keys)}, sigs...)...))) {
		return errors.New("verif: invalid aggregate signature")
	}
	return nil
}

// VerifAggregateSig is the ideal aggregate of the given signers (indices into keys) over msg.
func VerifAggregateSig(keys []PubKey, mask []int, msg []byte) []byte {
	sigs := make([][]byte, len(mask))
	for k, i := range mask {
		sigs[k] = VerifSign(keys[i], msg)
	}
	return sym.Hash("agg", verifLP(append([][]byte{verifKeySet(keys)}, sigs...)...))
}

// verifKeySet: the key list an aggregate is bound to.
func verifKeySet(keys []PubKey) []byte {
	parts := make([][]byte, len(keys))
	for i, k := range keys {
		parts[i] = k
	}
	return verifLP(parts...)
}

// ---- concrete chain universe shared by harnesses ----

func VerifTipSet(epoch int64, tag byte) *TipSet {
	return &TipSet{Epoch: epoch, Key: TipSetKey{tag, tag, 7}, PowerTable: MakeCid([]byte{tag, 9})}
}

// VerifChain builds [base, tags...] with increasing epochs starting at baseEpoch.
func VerifChain(baseEpoch int64, baseTag byte, tags ...byte) *ECChain {
	ts := []*TipSet{VerifTipSet(baseEpoch, baseTag)}
	for i, t := range tags {
		ts = append(ts, VerifTipSet(baseEpoch+int64(i)+1, t))
	}
	return &ECChain{TipSets: ts}
}

func VerifKey(i int) PubKey { return PubKey{byte(0xA0 + i), byte(i), 1} }

// VerifEntries builds entries with IDs 1..n, the given powers and distinct keys
// (already in canonical order if powers are non-increasing).
func VerifEntries(powers ...int64) PowerEntries {
	var es PowerEntries
	for i, p := range powers {
		es = append(es, PowerEntry{ID: ActorID(i + 1), Power: NewStoragePower(p), PubKey: VerifKey(i)})
	}
	return es
}
