//go:build verif

package gpbft

import sym "github.com/filecoin-project/go-f3/internal/verifsym"

// VerifC08_StrongQuorumExact: IsStrongQuorum(part, whole) <=> 3*part >= 2*whole
// for every 0 <= part <= whole < 2^61 (no overflow in the reference).
func VerifC08_StrongQuorumExact() {
	part, whole := sym.Int64("part"), sym.Int64("whole")
	sym.Assume(sym.And(0 <= part, sym.And(part <= whole, whole < 1<<61)))
	sym.Cover("reached")
	sym.Assert(IsStrongQuorum(part, whole) == (3*part >= 2*whole), "strong-quorum-exact")
}
