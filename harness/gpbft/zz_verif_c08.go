//go:build verif

package gpbft

import sym "github.com/filecoin-project/go-f3/internal/verifsym"

// VerifC08_StrongQuorumExact: IsStrongQuorum(part, whole) <=> 3*part >= 2*whole
// for every 0 <= part <= whole < 2^61 (no overflow in the reference).
func VerifC08_StrongQuorumExact() {
	part, whole := sym.Int64("part"), sym.Int64("whole")
	sym.Assume(sym.And(0 <= part, sym.And(part <= whole, whole < 1<<61)))
	sym.Cover("reached")
	sym.Assert(IsStrongQuorum(part, whole) == (3*part >= 2*whole), "strong-quorum-exact")
}

// VerifC08_WeakQuorum: anything counted as a weak quorum strictly exceeds one third.
func VerifC08_WeakQuorum() {
	part, whole := sym.Int64("part"), sym.Int64("whole")
	sym.Assume(sym.And(0 <= part, sym.And(part <= whole, whole < 1<<61)))
	sym.Cover("reached")
	sym.Assert(sym.Implies(hasWeakQuorum(part, whole), 3*part > whole), "weak-quorum-exceeds-one-third")
	// and it is not needlessly strict: one third plus one unit always counts
	sym.Assert(sym.Implies(3*part > whole+3, hasWeakQuorum(part, whole)), "weak-quorum-tight-within-one-unit")
}

// VerifC08_Intersection: any two strong quorums overlap in more than any
// tolerated faulty coalition (f with 3f < T), and a weak quorum exceeds it.
func VerifC08_Intersection() {
	t, a, b, f := sym.Int64("total"), sym.Int64("a"), sym.Int64("b"), sym.Int64("f")
	sym.Assume(sym.And(1 <= t, t < 1<<60))
	sym.Assume(sym.And(sym.And(0 <= a, a <= t), sym.And(0 <= b, b <= t)))
	sym.Assume(sym.And(sym.And(0 <= f, f <= t), 3*f < t))
	sym.Assume(sym.And(IsStrongQuorum(a, t), IsStrongQuorum(b, t)))
	sym.Cover("two-strong-quorums")
	sym.Assert(a+b-t > f, "strong-quorums-intersect-beyond-faulty-power")
	sym.Assert(3*(a+b-t) >= t, "overlap-at-least-one-third")
	w := sym.Int64("w")
	sym.Assume(sym.And(0 <= w, w <= t))
	sym.Assert(sym.Implies(hasWeakQuorum(w, t), w > f), "weak-quorum-exceeds-faulty-power")
}

// verifSymTable: n entries with arbitrary positive big-integer powers.
func verifSymEntries(n int) PowerEntries {
	es := make(PowerEntries, n)
	for i := range es {
		p := StoragePower{Int: sym.BigInt("power")}
		sym.Assume(p.Sign() > 0)
		es[i] = PowerEntry{ID: ActorID(i + 1), Power: p, PubKey: VerifKey(i)}
	}
	return es
}

// VerifC08_Scaling: for power tables with arbitrary positive big-integer
// powers (any magnitude): scaled powers are in [0,65535], sum to at most
// 65535, preserve order, and PowerTable.Add agrees with PowerEntries.Scaled.
func VerifC08_Scaling() {
	n := 2 // (3 entries: some queries stay unknown after 30 min; outside the claim)
	es := verifSymEntries(n)
	scaled, total, err := es.Scaled()
	sym.Assert(err == nil, "scaling-succeeds-on-positive-powers")
	if err != nil {
		return
	}
	sym.Cover("scaled")
	var sum int64
	for i := range scaled {
		sym.Assert(sym.And(scaled[i] >= 0, scaled[i] <= 0xffff), "scaled-in-range")
		sum += scaled[i]
	}
	sym.Assert(sum == total, "total-is-sum")
	sym.Assert(total <= 0xffff, "total-at-most-65535")
	for i := range es {
		for j := range es {
			if i != j {
				sym.Assert(sym.Implies(es[i].Power.GreaterThanEqual(es[j].Power), scaled[i] >= scaled[j]), "scaling-preserves-order")
			}
		}
	}
}

// VerifC08_TableAdd: PowerTable.Add over the same entries gives the same
// scaled values as PowerEntries.Scaled and passes Validate.
func VerifC08_TableAdd() {
	n := 2 + sym.Tier()
	es := verifSymEntries(n)
	scaled, total, err := es.Scaled()
	sym.Assume(err == nil)
	pt := NewPowerTable()
	err = pt.Add(es...)
	sym.Assert(err == nil, "add-succeeds")
	if err != nil {
		return
	}
	sym.Cover("added")
	sym.Assert(pt.ScaledTotal == total, "table-total-agrees")
	for i := range es {
		p, _ := pt.Get(es[i].ID)
		sym.Assert(p == scaled[i], "table-scaled-agrees")
	}
	sym.Assert(pt.Validate() == nil, "validate-accepts-what-add-builds")
}
