//go:build verif

package gpbft

import (
	sym "github.com/filecoin-project/go-f3/internal/verifsym"
)

// verifTallyState: a quorumState over a committee with arbitrary scaled powers
// in which each of the four members has voted for value A, value B or not at
// all (the state is built through the real Receive, so it is reachable).
func verifTallyState() (*Committee, *quorumState, [4]int) {
	c := VerifNewCommittee()
	pt := c.PowerTable
	var total int64
	for i := 0; i < 4; i++ {
		s := int64(sym.Uint16("scaled-power"))
		sym.Assume(s >= 1)
		pt.ScaledPower[i] = s
		total += s
	}
	pt.ScaledPower[4] = 0
	sym.Assume(total <= 0xffff)
	pt.ScaledTotal = total
	q := newQuorumState(pt)
	var votes [4]int
	for i := 0; i < 4; i++ {
		nv := 3 // 0 none, 1 A, 2 B
		if sym.Tier() == 0 && i >= 2 {
			nv = 2 // quick tier: the last two members vote for A or not at all (B is symmetric)
		}
		votes[i] = sym.Choice("vote", nv)
		if votes[i] != 0 {
			q.Receive(pt.Entries[i].ID, VerifX(1+votes[i]), []byte{byte(i), 1})
		}
	}
	return c, q, votes
}

func verifSupport(c *Committee, votes [4]int, v int) (forV, all int64) {
	for i := 0; i < 4; i++ {
		if votes[i] != 0 {
			all += c.PowerTable.ScaledPower[i]
		}
		if votes[i] == v {
			forV += c.PowerTable.ScaledPower[i]
		}
	}
	return
}

// VerifC01_TallyStep (A3): from any tally state and any further vote: a second
// vote of a sender changes nothing; a first vote adds exactly that sender's
// scaled power to exactly that value; the strong-quorum flag is exactly
// IsStrongQuorum(power, total); a strong quorum found consists of distinct
// members that voted for the value and holds at least two thirds.
func VerifC01_TallyStep() {
	c, q, votes := verifTallyState()
	pt := c.PowerTable
	sender := sym.Choice("new-sender", 4)
	newVote := 1 + sym.Choice("new-value", 2)
	q.Receive(pt.Entries[sender].ID, VerifX(1+newVote), []byte{byte(sender), 2})
	if votes[sender] == 0 {
		votes[sender] = newVote
		sym.Cover("first-vote")
	} else {
		sym.Cover("repeat-vote-ignored")
	}
	for v := 1; v <= 2; v++ {
		forV, all := verifSupport(c, votes, v)
		key := VerifX(1 + v).Key()
		sup, ok := q.chainSupport[key]
		sym.Assert(ok == (forV > 0 || sup.power == 0 && ok), "support entry exists when someone voted for the value")
		if ok {
			sym.Assert(sup.power == forV, "the power credited to a value is the sum of the powers of the distinct members that voted for it")
			sym.Assert(sup.hasStrongQuorum == IsStrongQuorum(forV, pt.ScaledTotal), "the strong-quorum flag is exact")
		} else {
			sym.Assert(forV == 0, "no entry only when nobody voted for the value")
		}
		sym.Assert(q.sendersTotalPower == all, "senders' total power is the sum over distinct senders")
		sym.Assert(q.HasStrongQuorumFor(key) == IsStrongQuorum(forV, pt.ScaledTotal), "HasStrongQuorumFor is exact")
		if res, found := q.FindStrongQuorumFor(key); found {
			sym.Cover("strong-quorum-found")
			var pw int64
			last := -1
			for _, idx := range res.Signers {
				sym.Assert(idx > last && idx < 4 && votes[idx] == v, "quorum signers are distinct members that voted for the value")
				last = idx
				pw += pt.ScaledPower[idx]
			}
			sym.Assert(IsStrongQuorum(pw, pt.ScaledTotal), "the returned signers hold a strong quorum")
			sym.Assert(len(res.Signatures) == len(res.Signers), "one signature per signer")
		} else {
			sym.Assert(!IsStrongQuorum(forV, pt.ScaledTotal), "a strong quorum is found whenever one exists")
		}
	}
	sym.Assert(q.ReceivedFromStrongQuorum() == IsStrongQuorum(q.sendersTotalPower, pt.ScaledTotal), "ReceivedFromStrongQuorum is exact")
	// two values cannot both hold a strong quorum (distinct senders, single votes)
	a, _ := verifSupport(c, votes, 1)
	b, _ := verifSupport(c, votes, 2)
	sym.Assert(!(IsStrongQuorum(a, pt.ScaledTotal) && IsStrongQuorum(b, pt.ScaledTotal)), "two different values never both hold a strong quorum in one tally")
	if v, ok := q.FindStrongQuorumValue(); ok {
		sym.Assert(v.Eq(VerifX(2)) && IsStrongQuorum(a, pt.ScaledTotal) || v.Eq(VerifX(3)) && IsStrongQuorum(b, pt.ScaledTotal), "FindStrongQuorumValue returns the value that holds it")
	}
}

// VerifC08_CouldReach: a value reported as unable to reach a strong quorum
// indeed cannot reach one however the members that have not voted yet vote;
// and with the adversary allowance, not even if a coalition of up to one
// third of the power double-votes.
func VerifC08_CouldReach() {
	c, q, votes := verifTallyState()
	pt := c.PowerTable
	key := VerifX(2).Key() // value A
	forA, all := verifSupport(c, votes, 1)
	unvoted := pt.ScaledTotal - all
	sym.Cover("tally")
	if !q.CouldReachStrongQuorumFor(key, false) {
		sym.Cover("cannot-reach")
		// every completion: any subset of the unvoted members votes A
		for mask := 0; mask < 16; mask++ {
			var extra int64
			okMask := true
			for i := 0; i < 4; i++ {
				if mask&(1<<i) != 0 {
					if votes[i] != 0 {
						okMask = false
					}
					extra += pt.ScaledPower[i]
				}
			}
			if okMask {
				sym.Assert(!IsStrongQuorum(forA+extra, pt.ScaledTotal), "reported impossible => no completion of the outstanding votes reaches a strong quorum")
			}
		}
	} else {
		sym.Assert(IsStrongQuorum(forA+unvoted, pt.ScaledTotal), "reported possible => all outstanding votes together would reach it")
	}
	if !q.CouldReachStrongQuorumFor(key, true) {
		sym.Cover("cannot-reach-even-with-adversary")
		f := int64(sym.Uint16("double-voting-power"))
		sym.Assume(3*f <= pt.ScaledTotal)
		sym.Assert(!IsStrongQuorum(forA+unvoted+f, pt.ScaledTotal) || forA+unvoted+f > pt.ScaledTotal, "reported impossible with adversary => no observer can see a strong quorum even with a third double-voting")
	}
}
