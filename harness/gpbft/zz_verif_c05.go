//go:build verif

package gpbft

import (
	"context"
	"errors"

	"github.com/filecoin-project/go-f3/internal/caching"
	sym "github.com/filecoin-project/go-f3/internal/verifsym"
)

func verifErrClass(err error) int {
	switch {
	case err == nil:
		return 0
	case errors.Is(err, ErrValidationInvalid):
		return 1
	case errors.Is(err, ErrValidationTooOld):
		return 2
	case errors.Is(err, ErrValidationNotRelevant):
		return 3
	case errors.Is(err, ErrValidationNoCommittee):
		return 4
	}
	return 9
}

// VerifC05_Relevance: the progress-relative admission rule on arbitrary 64-bit
// instance/round numbers against the reference predicate (DESIGN A.2).
func VerifC05_Relevance() {
	curID, curRound := sym.Uint64("cur-instance"), sym.Uint64("cur-round")
	curPhase := Phase(sym.Uint8("cur-phase"))
	lookback := sym.Uint64("lookback")
	sym.Assume(sym.And(curID < 1<<63, sym.And(lookback >= 1, lookback < 1<<32))) // ID+lookback does not wrap
	inst, round := sym.Uint64("instance"), sym.Uint64("round")
	phase := Phase(sym.Uint8("phase"))
	v := &cachingValidator{committeeLookback: lookback, progress: func() InstanceProgress {
		return InstanceProgress{Instant: Instant{ID: curID, Round: curRound, Phase: curPhase}}
	}}
	got := verifErrClass(v.validateByProgress(&GMessage{Vote: Payload{Instance: inst, Round: round, Phase: phase}}))
	sym.Cover("classified")
	want := 0
	switch {
	case inst >= curID && inst-curID >= lookback:
		want = 4
	case inst > curID:
		want = 0
	case inst < curID && curID-inst == 1 && phase == DECIDE_PHASE:
		want = 0
	case inst == curID:
		relevant := false
		if curPhase == DECIDE_PHASE {
			relevant = phase == DECIDE_PHASE
		} else {
			prevRound := curRound > 0 && round == curRound-1
			relevant = phase == QUALITY_PHASE || phase == DECIDE_PHASE || round >= curRound || prevRound
		}
		if !relevant {
			want = 3
		}
	default:
		want = 2
	}
	sym.Assert(got == want, "relevance class matches the reference predicate")
}

type verifShape struct {
	phase   Phase
	round   uint64
	value   int // index into VerifX
	jkind   int // 0 none, 1 by PREPARE of previous round, 2 by COMMIT-bottom of previous round, 3 by PREPARE same round, 4 by COMMIT any round
	defect  int
	sender  int
	valid   bool
	comment string
}

const (
	dNone = iota
	dSenderStranger
	dSenderZeroPower
	dValueIllFormed
	dSigOtherPayload
	dSigOtherMember
	dSigForged
	dTicketWrong
	dJustMissing
	dJustUnexpected
	dJInstance
	dJSupplemental
	dJPhase
	dJRound
	dJValue
	dJBelowQuorum
	dJZeroPowerSigner
	dJOutOfRangeSigner
	dJAggOtherPayload
	dJAggForged
	dCount
)

// verifBuild constructs a message of the given shape with one defect and
// computes its validity from the protocol rules (DESIGN Appendix A.1),
// independently of the validator's code.
func verifBuild(c *Committee, instance uint64) (*GMessage, bool) {
	phase := Phase(sym.PickU64(uint64(sym.Choice("phase", 8)))) // 0..7: INITIAL..TERMINATED, 7 = unknown
	round := uint64(sym.Choice("round", 3))
	valueIdx := sym.Choice("value", 4) // bottom, base-only, [b,2], [b,2,3]
	jkind := sym.Choice("justification", 5)
	defect := sym.Choice("defect", dCount)
	sender := sym.Choice("sender", 2) // member 0 or 2
	if sender == 1 {
		sender = 2
	}
	return verifBuildShape(c, instance, phase, round, valueIdx, jkind, defect, sender)
}

func verifBuildShape(c *Committee, instance uint64, phase Phase, round uint64, valueIdx, jkind, defect, sender int) (*GMessage, bool) {
	value := VerifX(valueIdx)
	bottom := valueIdx == 0

	// the justification the shape asks for
	var j *Justification
	quorum := []int{0, 1, 2} // 40000+30000+20000 of 100001: strong
	jRound, jPhase, jValue := uint64(0), PREPARE_PHASE, value
	switch jkind {
	case 1:
		jRound, jPhase, jValue = round-1, PREPARE_PHASE, value
	case 2:
		jRound, jPhase, jValue = round-1, COMMIT_PHASE, VerifX(0)
	case 3:
		jRound, jPhase, jValue = round, PREPARE_PHASE, value
	case 4:
		jRound, jPhase, jValue = 7, COMMIT_PHASE, value
	}
	jInstance := instance
	jSupp := VerifSupp()
	switch defect {
	case dJInstance:
		jInstance = instance + 1
	case dJSupplemental:
		jSupp.Commitments[0] = 1
	case dJPhase:
		if jPhase == PREPARE_PHASE {
			jPhase = CONVERGE_PHASE
		} else {
			jPhase = DECIDE_PHASE
		}
	case dJRound:
		jRound += 5
	case dJValue:
		jValue = VerifX(4)
	case dJBelowQuorum:
		quorum = []int{0, 2} // 60000 of 100001: below 2/3
	case dJZeroPowerSigner:
		quorum = []int{0, 1, 2, 4}
	case dJOutOfRangeSigner:
		quorum = []int{0, 1, 2, 7}
	}
	if jkind != 0 {
		jp := Payload{Instance: jInstance, Round: jRound, Phase: jPhase, SupplementalData: jSupp, Value: jValue}
		var mask []int
		for _, q := range quorum {
			if q < len(c.PowerTable.Entries) {
				mask = append(mask, q)
			}
		}
		signed := jp
		if defect == dJAggOtherPayload {
			signed.Round++
		}
		sig := VerifAggregateSig(c.PowerTable.Entries.PublicKeys(), mask, signed.MarshalForSigning(VerifNN))
		if defect == dJAggForged {
			sig = sym.Bytes("forged-aggregate", 32)
		}
		j = &Justification{Vote: jp, Signers: VerifBitfield(quorum...), Signature: sig}
	}
	if defect == dJustMissing {
		j = nil
	}

	m := VerifMessage(c, sender, instance, round, phase, value, j)
	switch defect {
	case dSenderStranger:
		m.Sender = 99
	case dSenderZeroPower:
		e := c.PowerTable.Entries[4]
		m.Sender = e.ID
		m.Signature = VerifSign(e.PubKey, m.Vote.MarshalForSigning(VerifNN))
		m.Ticket = VerifSign(e.PubKey, vrfSerializeSigInput(c.Beacon, instance, round, VerifNN))
	case dValueIllFormed:
		if bottom {
			sym.Assume(false)
		}
		bad := VerifX(valueIdx)
		bad.TipSets[0].Key = nil
		m.Vote.Value = bad
		m.Signature = VerifSign(c.PowerTable.Entries[sender].PubKey, m.Vote.MarshalForSigning(VerifNN))
	case dSigOtherPayload:
		p := m.Vote
		p.Round++
		m.Signature = VerifSign(c.PowerTable.Entries[sender].PubKey, p.MarshalForSigning(VerifNN))
	case dSigOtherMember:
		m.Signature = VerifSign(c.PowerTable.Entries[1].PubKey, m.Vote.MarshalForSigning(VerifNN))
	case dSigForged:
		m.Signature = sym.Bytes("forged-signature", 32)
	case dTicketWrong:
		m.Ticket = VerifSign(c.PowerTable.Entries[sender].PubKey, vrfSerializeSigInput(c.Beacon, instance, round+1, VerifNN))
	}

	// ---- reference validity (A.1) ----
	valid := true
	// 1. sender in committee with non-zero scaled power
	if defect == dSenderStranger || defect == dSenderZeroPower {
		valid = false
	}
	// 2. value well-formed
	if defect == dValueIllFormed {
		valid = false
	}
	// 3./4. step rules
	switch phase {
	case QUALITY_PHASE:
		valid = valid && round == 0 && !bottom
	case CONVERGE_PHASE:
		valid = valid && round > 0 && !bottom && defect != dTicketWrong
	case DECIDE_PHASE:
		valid = valid && round == 0 && !bottom
	case PREPARE_PHASE, COMMIT_PHASE:
	default:
		valid = false
	}
	// 5. signature
	switch defect {
	case dSigOtherPayload, dSigOtherMember:
		valid = false
	case dSigForged:
		ideal := VerifSign(c.PowerTable.Entries[sender].PubKey, m.Vote.MarshalForSigning(VerifNN))
		if string(m.Signature) != string(ideal) {
			valid = false
		}
	}
	// 6. justification present exactly when required
	required := !(phase == QUALITY_PHASE || (phase == PREPARE_PHASE && round == 0) || (phase == COMMIT_PHASE && bottom))
	if required != (m.Justification != nil) {
		valid = false
	}
	// 7. justification contents
	if required && m.Justification != nil {
		jv := m.Justification.Vote
		ok := jv.Instance == instance && verifSuppEq(&jv.SupplementalData, &m.Vote.SupplementalData)
		shapeOK := false
		switch phase {
		case CONVERGE_PHASE, PREPARE_PHASE:
			if round > 0 {
				shapeOK = jv.Round == round-1 && ((jv.Phase == COMMIT_PHASE && jv.Value.IsZero()) || (jv.Phase == PREPARE_PHASE && jv.Value.Eq(value)))
			}
		case COMMIT_PHASE:
			shapeOK = jv.Round == round && jv.Phase == PREPARE_PHASE && jv.Value.Eq(value)
		case DECIDE_PHASE:
			shapeOK = jv.Phase == COMMIT_PHASE && jv.Value.Eq(value)
		}
		ok = ok && shapeOK
		switch defect {
		case dJBelowQuorum, dJZeroPowerSigner, dJOutOfRangeSigner, dJAggOtherPayload:
			ok = false
		case dJAggForged:
			var mask []int
			for _, q := range quorum {
				mask = append(mask, q)
			}
			ideal := VerifAggregateSig(c.PowerTable.Entries.PublicKeys(), mask, jv.MarshalForSigning(VerifNN))
			if string(m.Justification.Signature) != string(ideal) {
				ok = false
			}
		}
		valid = valid && ok
	}
	return m, valid
}

func verifValidator(cur InstanceProgress, c *Committee, cacheInstances, cachePerInstance int) *cachingValidator {
	cp := &verifCommittees{from: cur.ID, to: cur.ID + 5, c: c}
	if cur.ID > 0 {
		cp.from = cur.ID - 1
	}
	return newValidator(VerifNN, VerifCrypto{}, cp, func() InstanceProgress { return cur }, caching.NewGroupedSet(cacheInstances, cachePerInstance), 5)
}

// VerifC05_SoundComplete: every message shape x one defect, validated by a
// fresh validator whose progress makes the message relevant: accepted iff
// valid per the protocol rules; never branded with an unclassified error.
func VerifC05_SoundComplete() {
	c := VerifNewCommittee()
	cur := InstanceProgress{Instant: Instant{ID: 7, Round: 1, Phase: PREPARE_PHASE}}
	m, valid := verifBuild(c, 7)
	v := verifValidator(cur, c, 4, 16)
	_, err := v.ValidateMessage(context.Background(), m)
	cls := verifErrClass(err)
	if cls == 0 {
		sym.Cover("accepted")
	} else {
		sym.Cover("rejected")
	}
	sym.Assert(cls == 0 || cls == 1, "a relevant message is accepted or branded invalid (no other class, no panic)")
	sym.Assert((cls == 0) == valid, "accepted iff valid (protocol rules)")
}

// VerifC05_HistoryIndependent: the verdict on a message does not depend on
// what the validator saw before: a fresh validator and one that first
// validated a related message (the valid twin of a defective message, or the
// defective twin of a valid one; tiny cache so that eviction happens) agree.
func VerifC05_HistoryIndependent() {
	c := VerifNewCommittee()
	cur := InstanceProgress{Instant: Instant{ID: 7, Round: 1, Phase: PREPARE_PHASE}}
	phase, round, valueIdx, jkind := verifBaseShape()
	d1 := sym.Choice("first-defect", dCount)
	d2 := sym.Choice("second-defect", dCount)
	if sym.Tier() == 0 && d1 != dNone && d2 != dNone && d1 != d2 {
		sym.Assume(false) // quick tier: one of the two is the valid twin, or the same defective message comes twice
	}
	m1, _ := verifBuildShape(c, 7, phase, round, valueIdx, jkind, d1, 0)
	m2, valid2 := verifBuildShape(c, 7, phase, round, valueIdx, jkind, d2, 0)
	n1, n2 := 4, 16
	if sym.Bool("tiny-cache") {
		n1, n2 = 1, 1
	}
	fresh := verifValidator(cur, c, n1, n2)
	warm := verifValidator(cur, c, n1, n2)
	_, _ = warm.ValidateMessage(context.Background(), m1)
	_, e1 := fresh.ValidateMessage(context.Background(), m2)
	_, e2 := warm.ValidateMessage(context.Background(), m2)
	sym.Cover("compared")
	sym.Assert(verifErrClass(e1) == verifErrClass(e2), "verdict independent of validation history")
	sym.Assert((verifErrClass(e2) == 0) == valid2, "warm validator: accepted iff valid")
}

// ---- exported for the pmsg harness (C13) ----

type VerifValidator interface {
	MessageValidator
	PartialMessageValidator
}

func VerifNewValidator(c *Committee, tinyCache bool) VerifValidator {
	cur := InstanceProgress{Instant: Instant{ID: 7, Round: 1, Phase: PREPARE_PHASE}}
	if tinyCache {
		return verifValidator(cur, c, 1, 1)
	}
	return verifValidator(cur, c, 4, 16)
}

// VerifBuildMessage: symbolic shape x one defect at instance 7 (see verifBuild).
func VerifBuildMessage(c *Committee) (*GMessage, bool) { return verifBuild(c, 7) }

func VerifErrClass(err error) int { return verifErrClass(err) }


// verifBaseShape picks one of the message shapes that are valid when built without defects.
func verifBaseShape() (phase Phase, round uint64, valueIdx int, jkind int) {
	valueIdx = 1 + sym.Choice("value", 3)
	switch sym.Choice("base-shape", 9) {
	case 0:
		phase, round = QUALITY_PHASE, 0
	case 1:
		phase, round = PREPARE_PHASE, 0
	case 2:
		phase, round, jkind = PREPARE_PHASE, 1, 1
	case 3:
		phase, round, jkind = PREPARE_PHASE, 2, 2
	case 4:
		phase, round, jkind = CONVERGE_PHASE, 1, 2
	case 5:
		phase, round, jkind = CONVERGE_PHASE, 2, 1
	case 6:
		phase, round, jkind = COMMIT_PHASE, 1, 3
	case 7:
		phase, round, valueIdx = COMMIT_PHASE, 1, 0
	default:
		phase, round, jkind = DECIDE_PHASE, 0, 4
	}
	return
}

// VerifBuildFromBase: a valid base shape with one symbolically chosen defect (or none).
func VerifBuildFromBase(c *Committee) (*GMessage, bool) {
	phase, round, valueIdx, jkind := verifBaseShape()
	return verifBuildShape(c, 7, phase, round, valueIdx, jkind, sym.Choice("defect", dCount), 0)
}

// VerifBuildValid: a valid message of a symbolically chosen base shape.
func VerifBuildValid(c *Committee) *GMessage {
	phase, round, valueIdx, jkind := verifBaseShape()
	m, _ := verifBuildShape(c, 7, phase, round, valueIdx, jkind, dNone, 0)
	return m
}

// VerifBuildValidAt: the valid message of base shape `shape` (0..8) for value index `value` (1..3).
func VerifBuildValidAt(c *Committee, shape, value int) *GMessage {
	var phase Phase
	var round uint64
	jkind := 0
	switch shape {
	case 0:
		phase, round = QUALITY_PHASE, 0
	case 1:
		phase, round = PREPARE_PHASE, 0
	case 2:
		phase, round, jkind = PREPARE_PHASE, 1, 1
	case 3:
		phase, round, jkind = PREPARE_PHASE, 2, 2
	case 4:
		phase, round, jkind = CONVERGE_PHASE, 1, 2
	case 5:
		phase, round, jkind = CONVERGE_PHASE, 2, 1
	case 6:
		phase, round, jkind = COMMIT_PHASE, 1, 3
	case 7:
		phase, round, value = COMMIT_PHASE, 1, 0
	default:
		phase, round, jkind = DECIDE_PHASE, 0, 4
	}
	m, _ := verifBuildShape(c, 7, phase, round, value, jkind, dNone, 0)
	return m
}
