//go:build verif

package gpbft

import (
	"context"

	sym "github.com/filecoin-project/go-f3/internal/verifsym"
)

// Two real participants (committee entries 0 and 1) with different inputs, a
// silent third member, and a Byzantine member (entry 3, scaled power below one
// third) that equivocates: to each honest participant it votes, in every phase
// of round 0, for that participant's own value, with the justifications that
// can be assembled from signatures that exist.  The solver chooses the scaled
// powers (arbitrary under the table invariant) and which honest messages cross
// between the two participants.  Agreement (C01): never two different decisions.

type verifDuo struct {
	c *Committee
	e [2]*verifEnv
}

func newVerifDuo(inputs [2]*ECChain) *verifDuo {
	c := VerifNewCommittee()
	verifSymbolicPowers(c)
	d := &verifDuo{c: c}
	for k := 0; k < 2; k++ {
		d.e[k] = newVerifEnvOver(c, inputs[k])
		d.e[k].self = k
	}
	d.e[1].votes = d.e[0].votes // the maps are shared: one world of existing signatures
	return d
}

// own returns the index of participant k's broadcast for (round 0, phase), or -1.
func (d *verifDuo) own(k int, phase Phase) int {
	for i, mb := range d.e[k].h.broadcasts {
		if mb.Payload.Phase == phase && mb.Payload.Round == 0 {
			return i
		}
	}
	return -1
}

func (d *verifDuo) built(k, i int) *GMessage {
	e := d.e[k]
	m, err := e.h.broadcasts[i].Build(context.Background(), VerifCrypto{}, d.c.PowerTable.Entries[k].ID)
	if err != nil {
		return nil
	}
	return m
}

func VerifC01_SplitBrain() {
	d := newVerifDuo([2]*ECChain{VerifX(2), VerifX(4)}) // [b,2] and the fork [b,4]
	for k := 0; k < 2; k++ {
		d.e[k].start()
	}
	// which honest messages cross: quick tier one pattern for all phases, thorough per phase
	pattern := -1
	if sym.Tier() == 0 {
		pattern = sym.Choice("crossing-pattern", 4) // bit 0: B's reach A, bit 1: A's reach B
	}
	jkinds := map[Phase]int{QUALITY_PHASE: 0, PREPARE_PHASE: 0, COMMIT_PHASE: 3, DECIDE_PHASE: 4}
	for _, phase := range []Phase{QUALITY_PHASE, PREPARE_PHASE, COMMIT_PHASE, DECIDE_PHASE} {
		// own echo and the Byzantine member's matching vote
		for k := 0; k < 2; k++ {
			e := d.e[k]
			i := d.own(k, phase)
			if i < 0 || e.p.Progress().ID != verifInstance {
				continue
			}
			v := e.h.broadcasts[i].Payload.Value
			e.echo(i)
			if e.p.Progress().ID != verifInstance {
				continue
			}
			if phase == COMMIT_PHASE && v.IsZero() {
				if m := e.message(verifByzIdx, 0, phase, &ECChain{}, 0, 0); m != nil {
					e.deliver(m)
				}
			} else if m := e.message(verifByzIdx, 0, phase, v, jkinds[phase], 0); m != nil {
				e.deliver(m)
			}
		}
		// honest messages that cross
		for k := 0; k < 2; k++ {
			e, o := d.e[k], 1-k
			crosses := pattern >= 0 && pattern&(1<<k) != 0
			if pattern < 0 {
				crosses = sym.Bool("crosses")
			}
			if i := d.own(o, phase); i >= 0 && e.p.Progress().ID == verifInstance && crosses {
				if m := d.built(o, i); m != nil {
					e.deliver(m)
				}
			}
		}
		// whoever is still waiting in this phase times out
		if phase != DECIDE_PHASE {
			for k := 0; k < 2; k++ {
				e := d.e[k]
				if e.p.Progress().ID == verifInstance && e.phase() == phase {
					e.fireAlarm(0)
				}
			}
		}
	}
	da, db := d.e[0].h.decisions, d.e[1].h.decisions
	switch {
	case len(da) == 1 && len(db) == 1:
		sym.Cover("both-decided")
		sym.Assert(da[0].Vote.Value.Eq(db[0].Vote.Value), "C01: two honest participants never decide different values")
	case len(da)+len(db) == 1:
		sym.Cover("one-decided")
	default:
		sym.Cover("none-decided")
	}
}

// VerifC02_UnanimousTimely (V3 end to end): two real participants with the
// same input whose powers together form a strong quorum (arbitrary otherwise),
// a timely network (every honest message reaches the other participant before
// any timeout) and a Byzantine member (< 1/3) that votes for a fork, for
// bottom or not at all: both participants decide the common input, in round 0,
// without any timeout.
func VerifC02_UnanimousTimely() {
	input := VerifX(2)
	d := newVerifDuo([2]*ECChain{input, input})
	sym.Assume(IsStrongQuorum(d.e[0].power(0)+d.e[0].power(1), d.e[0].total()))
	for k := 0; k < 2; k++ {
		d.e[k].start()
	}
	byz := sym.Choice("byzantine-votes", 3) // 0 silent, 1 for a fork, 2 for bottom where allowed
	for _, phase := range []Phase{QUALITY_PHASE, PREPARE_PHASE, COMMIT_PHASE, DECIDE_PHASE} {
		for k := 0; k < 2; k++ {
			e := d.e[k]
			if i := d.own(k, phase); i >= 0 && e.p.Progress().ID == verifInstance {
				e.echo(i)
			}
		}
		for k := 0; k < 2; k++ {
			e, o := d.e[k], 1-k
			if i := d.own(o, phase); i >= 0 && e.p.Progress().ID == verifInstance {
				if m := d.built(o, i); m != nil {
					e.deliver(m)
				}
			}
		}
		// the Byzantine member's vote of this phase, to both
		for k := 0; k < 2 && byz != 0; k++ {
			e := d.e[k]
			if e.p.Progress().ID != verifInstance {
				continue
			}
			var m *GMessage
			switch {
			case byz == 1 && (phase == QUALITY_PHASE || phase == PREPARE_PHASE):
				m = e.message(verifByzIdx, 0, phase, VerifX(4), 0, 0)
			case byz == 2 && (phase == PREPARE_PHASE || phase == COMMIT_PHASE):
				m = e.message(verifByzIdx, 0, phase, &ECChain{}, 0, 0)
			}
			if m != nil {
				e.deliver(m)
			}
		}
	}
	for k := 0; k < 2; k++ {
		e := d.e[k]
		sym.Assert(len(e.h.decisions) == 1 && e.h.decisions[0].Vote.Value.Eq(input), "V3: with a common input and a timely network every honest participant decides it")
		// (the harness never fires a phase timeout: the decision is reached on messages alone)
	}
	sym.Cover("both-decided-the-input")
}
