//go:build verif

package gpbft

import (
	"bytes"

	"github.com/filecoin-project/go-f3/merkle"
	sym "github.com/filecoin-project/go-f3/internal/verifsym"
)

// verifSymTipSet: every field symbolic (key of the given length).
func verifSymTipSet(tag string, keyLen int) *TipSet {
	ts := &TipSet{
		Epoch:      sym.Int64(tag + "-epoch"),
		Key:        TipSetKey(sym.Bytes(tag+"-key", keyLen)),
		PowerTable: MakeCid(sym.Bytes(tag+"-ptdata", 2)),
	}
	copy(ts.Commitments[:], sym.Bytes(tag+"-commitments", 32))
	return ts
}

func verifSymPayload(tag string, chain *ECChain) Payload {
	p := Payload{
		Instance: sym.Uint64(tag + "-instance"),
		Round:    sym.Uint64(tag + "-round"),
		Phase:    Phase(sym.Uint8(tag + "-phase")),
		SupplementalData: SupplementalData{
			PowerTable: MakeCid(sym.Bytes(tag+"-supp-ptdata", 2)),
		},
		Value: chain,
	}
	copy(p.SupplementalData.Commitments[:], sym.Bytes(tag+"-supp-commitments", 32))
	return p
}

func verifTipSetEq(a, b *TipSet) bool { return a.Equal(b) }

// VerifC14_SigningBytesBindEveryField: the bytes a participant signs are a
// deterministic function of the payload and differ whenever two payloads
// differ in any field: network name, instance, round, step, supplemental
// data, or anything in the chain (length, any tipset's epoch, key,
// power-table CID or commitments).  Hashes are ideal (injective).
func VerifC14_SigningBytesBindEveryField() {
	n1 := sym.Choice("len-1", 3) // chain lengths 0..2
	n2 := sym.Choice("len-2", 3)
	mk := func(tag string, n int) *ECChain {
		c := &ECChain{}
		for i := 0; i < n; i++ {
			c.TipSets = append(c.TipSets, verifSymTipSet(tag+"-ts", 1+i%2))
		}
		return c
	}
	c1, c2 := mk("a", n1), mk("b", n2)
	p1, p2 := verifSymPayload("a", c1), verifSymPayload("b", c2)
	nn1 := NetworkName(string(sym.Bytes("nn-1", 2)))
	nn2 := NetworkName(string(sym.Bytes("nn-2", 2)))
	b1 := p1.MarshalForSigning(nn1)
	sym.Assert(bytes.Equal(b1, p1.MarshalForSigning(nn1)), "signing bytes are deterministic")
	b2 := p2.MarshalForSigning(nn2)
	sym.Cover("marshalled")
	same := nn1 == nn2 && p1.Instance == p2.Instance && p1.Round == p2.Round && p1.Phase == p2.Phase &&
		verifSuppEq(&p1.SupplementalData, &p2.SupplementalData) && n1 == n2
	if same {
		for i := 0; i < n1; i++ {
			if !verifTipSetEq(c1.TipSets[i], c2.TipSets[i]) {
				same = false
			}
		}
	}
	sym.Assert(bytes.Equal(b1, b2) == same, "signing bytes are equal exactly when every field is equal")
}

// VerifC14_TicketInputsBindEveryField: VRF ticket inputs change with beacon,
// instance, round and network name.
func VerifC14_TicketInputsBindEveryField() {
	be1, be2 := sym.Bytes("beacon-1", 2), sym.Bytes("beacon-2", 2)
	i1, i2 := sym.Uint64("instance-1"), sym.Uint64("instance-2")
	r1, r2 := sym.Uint64("round-1"), sym.Uint64("round-2")
	nn1 := NetworkName(string(sym.Bytes("nn-1", 2)))
	nn2 := NetworkName(string(sym.Bytes("nn-2", 2)))
	b1 := vrfSerializeSigInput(be1, i1, r1, nn1)
	b2 := vrfSerializeSigInput(be2, i2, r2, nn2)
	sym.Cover("serialized")
	sym.Assert(bytes.Equal(b1, vrfSerializeSigInput(be1, i1, r1, nn1)), "ticket input is deterministic")
	same := bytes.Equal(be1, be2) && i1 == i2 && r1 == r2 && nn1 == nn2
	sym.Assert(bytes.Equal(b1, b2) == same, "ticket inputs are equal exactly when beacon, instance, round and network are equal")
}

// VerifC14_ChainKeysAgree: the key of a chain is the same whether computed
// directly, for all prefixes in batch, or read from cached prefix objects;
// the merkle BatchTree agrees with Tree on every prefix.  Leaves symbolic.
func VerifC14_ChainKeysAgree() {
	n := 1 + sym.Choice("len-minus-1", 4+4*sym.Tier())
	c := &ECChain{}
	var leaves [][]byte
	for i := 0; i < n; i++ {
		ts := verifSymTipSet("ts", 1)
		c.TipSets = append(c.TipSets, ts)
		leaves = append(leaves, ts.MarshalForSigning())
	}
	keys := c.KeysForPrefixes()
	all := c.AllPrefixes()
	batch := merkle.BatchTree(leaves)
	sym.Cover("computed")
	sym.Assert(len(keys) == n && len(all) == n && len(batch) == n, "one key per prefix")
	for i := 0; i < n; i++ {
		direct := c.Prefix(i).Key()
		sym.Assert(keys[i] == direct, "batch key equals direct key")
		sym.Assert(all[i].Key() == direct, "cached prefix key equals direct key")
		sym.Assert(all[i].Len() == i+1, "prefix object has the right length")
		sym.Assert(ECChainKey(batch[i]) == ECChainKey(merkle.Tree(leaves[:i+1])), "BatchTree equals Tree on every prefix")
	}
	sym.Assert(c.Key() == keys[n-1], "whole-chain key is the last prefix key")
}

// VerifC14_ChainKeysAgreeAllLengths: the same agreement for every chain
// length up to the maximum (128), concrete distinct leaves.
func VerifC14_ChainKeysAgreeAllLengths() {
	n := 1 + sym.Choice("len-minus-1", 128)
	c := &ECChain{}
	var leaves [][]byte
	for i := 0; i < n; i++ {
		ts := VerifTipSet(int64(100+i), byte(i))
		c.TipSets = append(c.TipSets, ts)
		leaves = append(leaves, ts.MarshalForSigning())
	}
	keys := c.KeysForPrefixes()
	all := c.AllPrefixes()
	sym.Cover("computed")
	step := 1
	if sym.Tier() == 0 && n > 16 {
		step = 7
	}
	for i := 0; i < n; i += step {
		direct := ECChainKey(merkle.Tree(leaves[:i+1]))
		sym.Assert(keys[i] == direct && all[i].Key() == direct, "batch, cached and direct keys agree")
	}
	sym.Assert(c.Key() == keys[n-1] && c.Validate() == nil, "whole-chain key is the last prefix key")
}

// VerifC14_ChainKeyInjective: chains with equal keys are equal (length,
// order and every tipset field), under ideal hashes.
func VerifC14_ChainKeyInjective() {
	n1 := 1 + sym.Choice("len-1-minus-1", 3)
	n2 := 1 + sym.Choice("len-2-minus-1", 3)
	c1, c2 := &ECChain{}, &ECChain{}
	for i := 0; i < n1; i++ {
		c1.TipSets = append(c1.TipSets, verifSymTipSet("a", 1))
	}
	for i := 0; i < n2; i++ {
		c2.TipSets = append(c2.TipSets, verifSymTipSet("b", 1))
	}
	sym.Cover("keyed")
	if c1.Key() == c2.Key() {
		sym.Cover("equal-keys")
		sym.Assert(c1.Eq(c2), "equal keys imply equal chains")
	} else {
		sym.Assert(!c1.Eq(c2), "different keys imply different chains")
	}
}

func verifGMessageEq(a, b *GMessage) bool {
	if a.Sender != b.Sender || !a.Vote.Eq(&b.Vote) || !bytes.Equal(a.Signature, b.Signature) || !bytes.Equal(a.Ticket, b.Ticket) {
		return false
	}
	if (a.Justification == nil) != (b.Justification == nil) {
		return false
	}
	if a.Justification != nil {
		x, _ := a.Justification.Signers.All(1000)
		y, _ := b.Justification.Signers.All(1000)
		if len(x) != len(y) {
			return false
		}
		for i := range x {
			if x[i] != y[i] {
				return false
			}
		}
		return a.Justification.Vote.Eq(&b.Justification.Vote) && bytes.Equal(a.Justification.Signature, b.Justification.Signature)
	}
	return true
}

// VerifC14_CodecRoundTripGMessage: decode(encode(m)) == m and encoding is
// deterministic, for messages whose scalar fields are arbitrary (every CBOR
// integer width), signature/ticket lengths at the boundaries, bottom and
// non-bottom values, with and without justification.
func VerifC14_CodecRoundTripGMessage() {
	// quick tier: one integer field symbolic at a time (every CBOR width), the others
	// fixed; thorough tier: all of them symbolic at once
	all := sym.Tier() == 1
	which := 0
	if !all {
		which = sym.Choice("symbolic-field", 4)
	}
	field := func(k int, name string, fixed uint64) uint64 {
		if all || which == k {
			return sym.Uint64(name)
		}
		return fixed
	}
	m := &GMessage{
		Sender: ActorID(field(0, "sender", 3)),
		Vote: Payload{
			Instance:         field(1, "instance", 7),
			Round:            field(2, "round", 1),
			Phase:            Phase(sym.Uint8("phase")),
			SupplementalData: VerifSupp(),
			Value:            VerifX(sym.Choice("value", 3)),
		},
	}
	switch sym.Choice("signature-len", 3) {
	case 1:
		m.Signature = sym.Bytes("signature", 1)
	case 2:
		m.Signature = append(sym.Bytes("signature", 2), make([]byte, 94)...) // maximum length 96
	}
	if sym.Bool("with-ticket") {
		m.Ticket = append(Ticket(sym.Bytes("ticket", 2)), make([]byte, 94)...)
	}
	if sym.Bool("with-justification") {
		m.Justification = &Justification{
			Vote:      Payload{Instance: m.Vote.Instance, Round: field(3, "j-round", 0), Phase: COMMIT_PHASE, SupplementalData: VerifSupp(), Value: VerifX(2)},
			Signers:   VerifBitfield(0, 2, 5),
			Signature: []byte{9, 9},
		}
	}
	var b1, b2 bytes.Buffer
	sym.Assert(m.MarshalCBOR(&b1) == nil, "encodes")
	sym.Assert(m.MarshalCBOR(&b2) == nil && bytes.Equal(b1.Bytes(), b2.Bytes()), "encoding is deterministic")
	var d GMessage
	err := d.UnmarshalCBOR(bytes.NewReader(b1.Bytes()))
	sym.Cover("round-trip")
	sym.Assert(err == nil, "decodes its own encoding")
	if err == nil {
		sym.Assert(verifGMessageEq(m, &d), "decode(encode(m)) == m")
	}
	// the partial form round-trips too
	pm := &PartialGMessage{GMessage: m, VoteValueKey: VerifX(2).Key()}
	var pb bytes.Buffer
	sym.Assert(pm.MarshalCBOR(&pb) == nil, "partial message encodes")
	var pd PartialGMessage
	err = pd.UnmarshalCBOR(bytes.NewReader(pb.Bytes()))
	sym.Assert(err == nil && pd.VoteValueKey == pm.VoteValueKey && verifGMessageEq(pd.GMessage, m), "partial message round-trips")
}

// VerifC14_DecodeHostileGMessage: arbitrary bytes into the decoders: an error
// or a value, never a panic, never an allocation beyond the documented limits.
func VerifC14_DecodeHostileGMessage() {
	n := 1 + sym.Choice("len-minus-1", 2)
	data := sym.Bytes("data", n)
	sym.AllocLimit(1 << 20)
	var m GMessage
	_ = m.UnmarshalCBOR(bytes.NewReader(data))
	var c ECChain
	_ = c.UnmarshalCBOR(bytes.NewReader(data))
	var pe PowerEntries
	_ = pe.UnmarshalCBOR(bytes.NewReader(data))
	sym.CheckAlloc()
	sym.Cover("decoded-without-panic")
}

// VerifC14_DecodeTruncatedGMessage: a strict prefix of a valid encoding never decodes.
func VerifC14_DecodeTruncatedGMessage() {
	c := VerifNewCommittee()
	j := VerifJustification(c, 7, 0, PREPARE_PHASE, VerifX(2), 0, 1)
	m := VerifMessage(c, 0, 7, 0, COMMIT_PHASE, VerifX(2), j)
	var b bytes.Buffer
	if err := m.MarshalCBOR(&b); err != nil {
		panic(err)
	}
	data := b.Bytes()
	cut := sym.Int("cut")
	sym.Assume(sym.And(cut >= 0, cut < len(data)))
	sym.Cover("truncated")
	var d GMessage
	sym.Assert(d.UnmarshalCBOR(bytes.NewReader(data[:cut])) != nil, "a strict prefix of a valid encoding is rejected")
}

func verifDeepCopyChain(c *ECChain) *ECChain {
	out := &ECChain{}
	for _, ts := range c.TipSets {
		t := *ts
		t.Key = append(TipSetKey(nil), ts.Key...)
		out.TipSets = append(out.TipSets, &t)
	}
	return out
}

// VerifC14_DerivedChainsKeepTheirKeys: chains derived from a chain (Prefix,
// AllPrefixes, BaseChain, Extend, Append) are values of their own: building a
// fork on top of a derived chain never changes the content of the chain it
// was derived from nor of its siblings, so every (cached) key still is the key
// of the content it is read from.
func VerifC14_DerivedChainsKeepTheirKeys() {
	n := 2 + sym.Choice("len-minus-2", 3)
	var tags []byte
	for i := 1; i < n; i++ {
		tags = append(tags, byte(10+i))
	}
	c := VerifChain(10, 10, tags...)
	snapshot := verifDeepCopyChain(c)
	if sym.Bool("parent-key-cached") {
		_ = c.Key()
	}
	all := c.AllPrefixes()
	var derived []*ECChain
	derived = append(derived, all...)
	for i := 0; i < n; i++ {
		derived = append(derived, c.Prefix(i))
	}
	derived = append(derived, c.BaseChain())
	var snaps []*ECChain
	for _, d := range derived {
		snaps = append(snaps, verifDeepCopyChain(d))
	}
	// fork off one of the derived chains
	k := sym.Choice("fork-from", len(derived))
	fork := VerifTipSet(99, 99)
	var forked *ECChain
	if sym.Bool("extend") {
		forked = derived[k].Extend(fork.Key)
	} else {
		forked = derived[k].Append(fork)
	}
	sym.Cover("forked")
	sym.Assert(forked.Len() == derived[k].Len()+1 && forked.Key() == verifDeepCopyChain(forked).Key(), "fork has its own key")
	sym.Assert(c.Eq(snapshot) && c.Key() == snapshot.Key(), "forking a derived chain leaves the parent and its key unchanged")
	for i, d := range derived {
		sym.Assert(d.Eq(snaps[i]), "forking a derived chain leaves its siblings unchanged")
		sym.Assert(d.Key() == verifDeepCopyChain(d).Key(), "cached key is the key of the content")
		p := Payload{Instance: 1, Phase: PREPARE_PHASE, Value: d}
		q := Payload{Instance: 1, Phase: PREPARE_PHASE, Value: verifDeepCopyChain(d)}
		sym.Assert(bytes.Equal(p.MarshalForSigning("nn"), q.MarshalForSigning("nn")), "signed bytes are those of the content")
	}
}

// VerifC14_DecodeIntoUsedChain: decoding is a function of the input bytes
// only: a chain decoded into a receiver that already held another chain (whose
// key had been computed, or not) equals the encoded chain, and its key and
// signed bytes are those of the decoded content.
func VerifC14_DecodeIntoUsedChain() {
	older := VerifChain(20, 7, 8)
	if sym.Bool("older-key-cached") {
		_ = older.Key()
	}
	var src *ECChain
	switch sym.Choice("encoded", 3) {
	case 0:
		src = &ECChain{} // bottom
	case 1:
		src = VerifChain(10, 1)
	default:
		src = VerifChain(10, 1, 2, 3)
	}
	var buf bytes.Buffer
	sym.Assert(src.MarshalCBOR(&buf) == nil, "encodes")
	err := older.UnmarshalCBOR(bytes.NewReader(buf.Bytes()))
	sym.Assert(err == nil, "decodes")
	sym.Cover("decoded")
	sym.Assert(older.Eq(src) && older.Len() == src.Len(), "KNOWN:c14-bottom-decoded-into-used-chain:the decoded chain equals the encoded chain whatever the receiver held")
	sym.Assert(older.Key() == verifDeepCopyChain(src).Key(), "KNOWN:c14-bottom-decoded-into-used-chain:the key of a decoded chain is the key of its content")
	p := Payload{Instance: 1, Phase: PREPARE_PHASE, Value: older}
	q := Payload{Instance: 1, Phase: PREPARE_PHASE, Value: verifDeepCopyChain(src)}
	sym.Assert(bytes.Equal(p.MarshalForSigning("nn"), q.MarshalForSigning("nn")), "KNOWN:c14-bottom-decoded-into-used-chain:signed bytes of a decoded chain are those of its content")
}

// VerifC14_DecodeMutatedGMessage: a valid encoding of a COMMIT message with
// justification in which one byte (two adjacent bytes in the thorough tier), at
// any position, is replaced by arbitrary values: the decoder returns an error
// or a value, never panics and never allocates beyond the documented limits
// (a length field blown up by the mutation must be refused, not allocated);
// whatever decodes re-encodes without error.
func VerifC14_DecodeMutatedGMessage() {
	c := VerifNewCommittee()
	j := VerifJustification(c, 7, 0, PREPARE_PHASE, VerifX(2), 0, 1)
	m := VerifMessage(c, 0, 7, 0, COMMIT_PHASE, VerifX(2), j)
	var b bytes.Buffer
	if err := m.MarshalCBOR(&b); err != nil {
		panic(err)
	}
	data := append([]byte(nil), b.Bytes()...)
	pos := sym.Choice("position", len(data))
	if sym.Tier() == 0 && pos%4 != 0 && pos > 64 {
		sym.Assume(false) // quick tier: every position of the first 64 bytes, every 4th beyond
	}
	width := 1 + sym.Tier()
	mut := sym.Bytes("mutation", width)
	for k := 0; k < width && pos+k < len(data); k++ {
		data[pos+k] = mut[k]
	}
	sym.AllocLimit(1 << 20)
	var d GMessage
	err := d.UnmarshalCBOR(bytes.NewReader(data))
	sym.CheckAlloc()
	sym.Cover("mutated")
	if err == nil {
		sym.Cover("still-decodes")
		var out bytes.Buffer
		sym.Assert(d.MarshalCBOR(&out) == nil, "a decoded message can be encoded again")
	}
}
