//go:build verif

package certs

import (
	"sort"

	"github.com/filecoin-project/go-f3/gpbft"
	sym "github.com/filecoin-project/go-f3/internal/verifsym"
)

// verifSymTable: n entries, ids arbitrary distinct uint64, powers arbitrary
// positive big integers (unbounded magnitude), one-byte keys; canonically sorted.
func verifSymTable(tag string, n int) gpbft.PowerEntries {
	es := make(gpbft.PowerEntries, n)
	for i := range es {
		id := sym.Uint64(tag + "-id")
		for j := 0; j < i; j++ {
			sym.Assume(uint64(es[j].ID) != id)
		}
		p := gpbft.StoragePower{Int: sym.BigInt(tag + "-power")}
		sym.Assume(p.Sign() > 0)
		es[i] = gpbft.PowerEntry{ID: gpbft.ActorID(id), Power: p, PubKey: gpbft.PubKey(sym.Bytes(tag+"-key", 1))}
	}
	sort.Sort(es)
	return es
}

func verifCopyTable(t gpbft.PowerEntries) gpbft.PowerEntries {
	c := make(gpbft.PowerEntries, len(t))
	for i := range t {
		c[i] = gpbft.PowerEntry{ID: t[i].ID, Power: t[i].Power.Copy(), PubKey: append(gpbft.PubKey(nil), t[i].PubKey...)}
	}
	return c
}

func verifCanonical(t gpbft.PowerEntries) bool {
	for i := 1; i < len(t); i++ {
		if !t.Less(i-1, i) {
			return false
		}
	}
	return true
}

func verifDiffEq(x, y PowerTableDiff) bool {
	if len(x) != len(y) {
		return false
	}
	for i := range x {
		if x[i].ParticipantID != y[i].ParticipantID || !x[i].PowerDelta.Equals(y[i].PowerDelta) || string(x[i].SigningKey) != string(y[i].SigningKey) {
			return false
		}
	}
	return true
}

// VerifC04_DiffRoundTrip: apply(make(a,b), a) = b in canonical order; the
// diff is strictly sorted by participant and has no empty delta.
func VerifC04_DiffRoundTrip() {
	n := 2 + sym.Tier()
	a := verifSymTable("a", sym.Choice("len-a", n+1))
	b := verifSymTable("b", sym.Choice("len-b", n+1))
	d := MakePowerTableDiff(a, b)
	sym.Cover("diffed")
	for i := range d {
		sym.Assert(!d[i].IsZero(), "diff-has-no-empty-delta")
		if i > 0 {
			sym.Assert(d[i-1].ParticipantID < d[i].ParticipantID, "diff-strictly-sorted-by-participant")
		}
	}
	got, err := ApplyPowerTableDiffs(a, d)
	sym.Assert(err == nil, "apply-accepts-made-diff")
	if err != nil {
		return
	}
	sym.Cover("applied")
	sym.Assert(got.Equal(b), "apply(make(a,b),a) == b")
	sym.Assert(verifCanonical(got), "result-in-canonical-order")
}

// VerifC04_ApplyUnique: for a structurally arbitrary diff d: if application
// accepts it, d is exactly the canonical diff between input and output; if
// it rejects it, the caller's table is unmodified.
func VerifC04_ApplyUnique() {
	n := 1 + sym.Tier()
	a := verifSymTable("a", 1+sym.Choice("len-a-minus-1", 2))
	before := verifCopyTable(a)
	nd := 1 + sym.Choice("deltas-minus-1", n+1)
	d := make(PowerTableDiff, nd)
	for i := range d {
		d[i] = PowerTableDelta{
			ParticipantID: gpbft.ActorID(sym.Uint64("d-id")),
			PowerDelta:    gpbft.StoragePower{Int: sym.BigInt("d-power")},
			SigningKey:    gpbft.PubKey(sym.Bytes("d-key", sym.Choice("d-keylen", 2))),
		}
	}
	got, err := ApplyPowerTableDiffs(a, d)
	sym.Assert(a.Equal(before), "caller-table-never-modified")
	if err != nil {
		sym.Cover("rejected")
		return
	}
	sym.Cover("accepted")
	sym.Assert(verifCanonical(got), "accepted: result canonical")
	for i := range got {
		sym.Assert(got[i].Power.Sign() > 0, "accepted: result powers positive")
	}
	sym.Assert(verifDiffEq(d, MakePowerTableDiff(a, got)), "accepted: diff is the unique canonical diff between input and output")
}
