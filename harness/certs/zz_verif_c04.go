//go:build verif

package certs

import (
	"github.com/filecoin-project/go-bitfield"
	"github.com/filecoin-project/go-f3/gpbft"
	sym "github.com/filecoin-project/go-f3/internal/verifsym"
)

const verifNN = gpbft.NetworkName("verif")

// committee evolution: table k -> table k+1
func verifTable(k int) gpbft.PowerEntries {
	var es gpbft.PowerEntries
	switch k % 3 {
	case 0:
		es = gpbft.VerifEntries(40000, 30000, 20000, 10000, 1) // member 5 has zero scaled power
	case 1:
		es = gpbft.VerifEntries(40000, 30000, 20000, 10000, 1, 25000) // member 6 joins
	default:
		es = gpbft.VerifEntries(40000, 30000, 20000, 0, 1, 25000) // member 4 leaves
	}
	var out gpbft.PowerEntries
	for _, e := range es {
		if e.Power.Sign() > 0 {
			out = append(out, e)
		}
	}
	// canonical order (power desc, id asc)
	for i := 1; i < len(out); i++ {
		for j := i; j > 0 && out.Less(j, j-1); j-- {
			out.Swap(j, j-1)
		}
	}
	return out
}

type verifCertSpec struct {
	cert  *FinalityCertificate
	valid bool
}

// verifMakeCert builds a certificate for `instance` on top of the tipset
// (baseEpoch, baseTag) under table k with one symbolically chosen defect (or
// none) and a symbolic signer set, and says whether it is valid per the
// reference predicate (DESIGN Appendix A.3), given whether a base is imposed.
func verifMakeCert(tag string, expectInstance uint64, baseEpoch int64, baseTag byte, suffix int, k int, full bool, baseImposed bool, fixedSigners int) verifCertSpec {
	table := verifTable(k)
	next := verifTable(k + 1)
	n := len(table)
	scaled, total, err := table.Scaled()
	if err != nil {
		panic(err)
	}
	valid := true
	defect := sym.Choice(tag+"-defect", 10)

	instance := expectInstance
	if defect == 1 {
		instance = sym.Uint64(tag + "-instance")
		sym.Assume(instance != expectInstance)
		valid = false
	}
	var tags []byte
	for i := 1; i <= suffix; i++ {
		tags = append(tags, byte(baseEpoch+int64(i)))
	}
	chain := gpbft.VerifChain(baseEpoch, baseTag, tags...)
	switch defect {
	case 2: // base differs from the imposed one (valid if no base is imposed)
		chain = gpbft.VerifChain(baseEpoch, baseTag^0x55, tags...)
		if baseImposed {
			valid = false
		}
	case 3: // bottom
		chain = &gpbft.ECChain{}
		valid = false
	case 4: // ill-formed: epochs not increasing (or, for a base-only chain, an empty tipset key)
		if suffix > 0 {
			chain.TipSets[1].Epoch = baseEpoch
		} else {
			chain.TipSets[0].Key = nil
		}
		valid = false
	}
	supp := gpbft.SupplementalData{}
	supp.PowerTable, err = MakePowerTableCID(next)
	if err != nil {
		panic(err)
	}
	if defect == 5 {
		supp.PowerTable, _ = MakePowerTableCID(table)
		valid = false
	}
	delta := MakePowerTableDiff(table, next)
	if defect == 6 {
		delta = MakePowerTableDiff(table, verifTable(k+2))
		valid = false
	}
	if defect == 9 { // the delta stripped although the committed table differs from the current one
		delta = nil
		if sym.Bool(tag + "-empty-not-nil") {
			delta = PowerTableDiff{}
		}
		valid = false
	}
	// signers: any subset; index n is out of range (full mode only)
	var idx []uint64
	var mask []int
	var power int64
	signersOK := true
	limit := n
	if full {
		limit = n + 1
	}
	for i := 0; i < limit; i++ {
		if !full && i == 3 {
			continue // quick tier: member 3 never signs (halves the subsets)
		}
		if i < fixedSigners || sym.Bool(tag+"-signer") {
			idx = append(idx, uint64(i))
			mask = append(mask, i)
			if i >= n || scaled[i] == 0 {
				signersOK = false
			} else {
				power += scaled[i]
			}
		}
	}
	if !signersOK || !gpbft.IsStrongQuorum(power, total) {
		valid = false
	}
	payload := gpbft.Payload{Instance: instance, Round: 0, Phase: gpbft.DECIDE_PHASE, SupplementalData: supp, Value: chain}
	inRange := len(mask) == 0 || mask[len(mask)-1] < n
	var ideal []byte
	if inRange {
		ideal = gpbft.VerifAggregateSig(table.PublicKeys(), mask, payload.MarshalForSigning(verifNN))
	}
	sig := ideal
	switch defect {
	case 7: // aggregate over a payload differing in one field (COMMIT instead of DECIDE)
		if !inRange {
			sym.Assume(false)
		}
		other := payload
		other.Phase = gpbft.COMMIT_PHASE
		sig = gpbft.VerifAggregateSig(table.PublicKeys(), mask, other.MarshalForSigning(verifNN))
		valid = false
	case 8: // arbitrary bytes: valid only if they happen to be the ideal aggregate
		sig = sym.Bytes(tag+"-forged", 32)
		if !inRange || string(sig) != string(ideal) {
			valid = false
		}
	}
	if sig == nil {
		sig = []byte{}
	}
	return verifCertSpec{valid: valid, cert: &FinalityCertificate{
		GPBFTInstance: instance, ECChain: chain, SupplementalData: supp,
		Signers: bitfield.NewFromSet(idx), Signature: sig, PowerTableDelta: delta,
	}}
}

// VerifC04_ValidateOne: one certificate with every field-level defect
// combination; accepted iff valid per the reference predicate; reported
// next instance / chain / table describe exactly the valid prefix.
func VerifC04_ValidateOne() {
	first := uint64(sym.Uint8("first-instance"))
	var base *gpbft.TipSet
	switch sym.Choice("caller-base", 3) {
	case 1:
		base = gpbft.VerifTipSet(10, 10)
	case 2:
		base = gpbft.VerifTipSet(11, 10) // differs from every generated base
	}
	spec := verifMakeCert("c0", first, 10, 10, 2, 0, sym.Tier() == 1, base != nil, 0)
	valid := spec.valid
	if base != nil && base.Epoch != 10 {
		valid = false
	}
	next, chain, table, err := ValidateFinalityCertificates(gpbft.VerifCrypto{}, verifNN, verifTable(0), first, base, spec.cert)
	if err == nil {
		sym.Cover("accepted")
	} else {
		sym.Cover("rejected")
	}
	sym.Assert((err == nil) == valid, "accepted iff valid (reference predicate)")
	if valid {
		sym.Assert(next == first+1, "valid: next instance advanced by one")
		sym.Assert(table.Equal(verifTable(1)), "valid: table is the committed next table")
		sym.Assert(chain.Len() == 2 && chain.TipSets[0].Equal(spec.cert.ECChain.TipSets[1]), "valid: reported chain is the finalized suffix")
	} else {
		sym.Assert(next == first, "invalid: next instance unchanged")
		sym.Assert(table.Equal(verifTable(0)), "invalid: table unchanged")
		sym.Assert(chain.IsZero(), "invalid: no chain reported")
	}
}

// VerifC04_ValidateSequence: two certificates, each valid or carrying one
// defect; the result describes exactly the valid prefix (linking through the
// head finalized by the predecessor and through evolving power tables).
func VerifC04_ValidateSequence() {
	first := uint64(7)
	// the first certificate finalizes two new tipsets or none (a base-only decision)
	n0 := 2 * sym.Choice("c0-suffix-len-half", 2)
	s0 := verifMakeCert("c0", first, 10, 10, n0, 0, false, false, 2-sym.Tier())
	// the second certificate must start at the head finalized by the first
	headTag := byte(10 + n0)
	if !s0.cert.ECChain.IsZero() && len(s0.cert.ECChain.Head().Key) > 0 {
		headTag = s0.cert.ECChain.Head().Key[0]
	}
	s1 := verifMakeCert("c1", first+1, 10+int64(n0), headTag, 2, 1, false, true, 2-sym.Tier())
	next, chain, table, err := ValidateFinalityCertificates(gpbft.VerifCrypto{}, verifNN, verifTable(0), first, nil, s0.cert, s1.cert)
	prefix := 0
	if s0.valid {
		prefix = 1
		if s1.valid {
			prefix = 2
		}
	}
	sym.Cover("validated")
	sym.Assert((err == nil) == (prefix == 2), "sequence accepted iff every certificate is valid")
	sym.Assert(next == first+uint64(prefix), "next instance = first + valid prefix")
	sym.Assert(table.Equal(verifTable(prefix)), "table = table after the valid prefix")
	switch prefix {
	case 0:
		sym.Assert(chain.IsZero(), "empty prefix: no chain")
	case 1:
		sym.Assert(chain.Len() == n0, "prefix 1: suffix of the first certificate")
	default:
		sym.Cover("both-valid")
		sym.Assert(chain.Len() == n0+2 && chain.TipSets[n0+1].Epoch == 12+int64(n0), "prefix 2: both suffixes, in order")
	}
}

// VerifCertSeq (harness helper for other packages): n valid, store-admissible
// certificates for instances first.. under the evolving tables verifTable(j),
// signed (ideal aggregate) by the three strongest members (a strong quorum of
// every table), each finalizing two tipsets on top of the head of its predecessor.
func VerifCertSeq(first uint64, n int) ([]*FinalityCertificate, []gpbft.PowerEntries) {
	idx := make([]int, n+1)
	for j := range idx {
		idx[j] = j
	}
	return VerifCertSeqTables(first, idx)
}

// VerifCertSeqTables: like VerifCertSeq, certificate j moving the committee
// from verifTable(idx[j]) to verifTable(idx[j+1]) (equal indices: empty delta).
func VerifCertSeqTables(first uint64, idx []int) ([]*FinalityCertificate, []gpbft.PowerEntries) {
	tables := []gpbft.PowerEntries{verifTable(idx[0])}
	var out []*FinalityCertificate
	for j := 0; j+1 < len(idx); j++ {
		table, next := verifTable(idx[j]), verifTable(idx[j+1])
		be := int64(10 + 2*j)
		chain := gpbft.VerifChain(be, byte(be), byte(be+1), byte(be+2))
		supp := gpbft.SupplementalData{}
		var err error
		if supp.PowerTable, err = MakePowerTableCID(next); err != nil {
			panic(err)
		}
		payload := gpbft.Payload{Instance: first + uint64(j), Phase: gpbft.DECIDE_PHASE, SupplementalData: supp, Value: chain}
		out = append(out, &FinalityCertificate{
			GPBFTInstance: first + uint64(j), ECChain: chain, SupplementalData: supp,
			Signers:         bitfield.NewFromSet([]uint64{0, 1, 2}),
			Signature:       gpbft.VerifAggregateSig(table.PublicKeys(), []int{0, 1, 2}, payload.MarshalForSigning(verifNN)),
			PowerTableDelta: MakePowerTableDiff(table, next),
		})
		tables = append(tables, next)
	}
	return out, tables
}

// VerifForge returns an invalid variant of a valid certificate of VerifCertSeq
// (j = the index of the table it is signed under): 0 aggregate of a different signer set, 1 under-powered
// signer set with its correct aggregate, 2 delta (and committed table) of a
// different table under the old signature, 3 signed for another instance.
func VerifForge(c *FinalityCertificate, j int, kind int) *FinalityCertificate {
	f := *c
	table := verifTable(j)
	payload := gpbft.Payload{Instance: c.GPBFTInstance, Phase: gpbft.DECIDE_PHASE, SupplementalData: c.SupplementalData, Value: c.ECChain}
	switch kind {
	case 0:
		f.Signature = gpbft.VerifAggregateSig(table.PublicKeys(), []int{0, 1, 3}, payload.MarshalForSigning(verifNN))
	case 1:
		f.Signers = bitfield.NewFromSet([]uint64{1, 2})
		f.Signature = gpbft.VerifAggregateSig(table.PublicKeys(), []int{1, 2}, payload.MarshalForSigning(verifNN))
	case 2:
		f.PowerTableDelta = MakePowerTableDiff(table, verifTable(j+2))
		f.SupplementalData.PowerTable, _ = MakePowerTableCID(verifTable(j + 2))
	default:
		payload.Instance++
		f.Signature = gpbft.VerifAggregateSig(table.PublicKeys(), []int{0, 1, 2}, payload.MarshalForSigning(verifNN))
	}
	return &f
}
