//go:build verif

package pmsg

import (
	"context"

	"github.com/filecoin-project/go-f3/gpbft"
	sym "github.com/filecoin-project/go-f3/internal/verifsym"
)

func verifMsgEq(a, b *gpbft.GMessage) bool {
	if a.Sender != b.Sender || !a.Vote.Eq(&b.Vote) || string(a.Signature) != string(b.Signature) || string(a.Ticket) != string(b.Ticket) {
		return false
	}
	if (a.Justification == nil) != (b.Justification == nil) {
		return false
	}
	if a.Justification != nil {
		if !a.Justification.Vote.Eq(&b.Justification.Vote) || string(a.Justification.Signature) != string(b.Justification.Signature) {
			return false
		}
		x, _ := a.Justification.Signers.All(100)
		y, _ := b.Justification.Signers.All(100)
		if len(x) != len(y) {
			return false
		}
		for i := range x {
			if x[i] != y[i] {
				return false
			}
		}
	}
	return true
}

// verifComplete performs what CompleteMessage does once the chain exchange
// has returned chain c for the announced key (real inferJustificationVoteValue).
func verifComplete(p *gpbft.PartialGMessage, c *gpbft.ECChain) *gpbft.PartialGMessage {
	if p.VoteValueKey.IsZero() {
		return p
	}
	p.Vote.Value = c
	inferJustificationVoteValue(p)
	return p
}

// VerifC13_TwoStageEqualsOneShot: for every message shape x defect of the C05
// space: stripping (real ToPartialGMessage), partial validation with the
// announced key, completion with a chain and full validation accept exactly
// when one-shot validation of the original accepts, provided the completing
// chain is the original; a completing chain with a different key is never
// admitted.  Shared or separate caches, both orders.
func VerifC13_TwoStageEqualsOneShot() {
	c := gpbft.VerifNewCommittee()
	var m *gpbft.GMessage
	var valid bool
	if sym.Tier() == 1 {
		m, valid = gpbft.VerifBuildMessage(c) // every shape x defect
	} else {
		m, valid = gpbft.VerifBuildFromBase(c) // valid base shapes x defect
	}
	pmm := &PartialMessageManager{}
	// the one-shot side validates its own copy (completion rewrites the value of a
	// justification in place, and a stripped message may share the justification object)
	orig := *m
	if m.Justification != nil {
		j := *m.Justification
		orig.Justification = &j
	}
	pm, err := pmm.ToPartialGMessage(m)
	sym.Assert(err == nil, "strip succeeds")
	sym.Assert(pm.Vote.Value.IsZero(), "stripped message carries no chain")

	tiny, separate := false, false
	if sym.Tier() == 1 {
		// (one extra dimension: a tiny shared cache, or separate validators)
		switch sym.Choice("cache-variant", 3) {
		case 1:
			tiny = true
		case 2:
			separate = true
		}
	}
	v1 := gpbft.VerifNewValidator(c, tiny)
	v2 := v1
	if separate {
		v2 = gpbft.VerifNewValidator(c, tiny)
	}
	ctx := context.Background()
	oneFirst := sym.Bool("one-shot-first")
	var one error
	if oneFirst {
		_, one = v1.ValidateMessage(ctx, &orig)
	}
	completing := orig.Vote.Value
	wrongChain := sym.Bool("complete-with-other-chain")
	if wrongChain {
		completing = gpbft.VerifX(4)
		if orig.Vote.Value.Eq(completing) {
			completing = gpbft.VerifX(3)
		}
	}
	var two error
	pv, perr := v2.PartiallyValidateMessage(ctx, pm)
	two = perr
	if perr == nil {
		full := verifComplete(pv.PartialMessage(), completing)
		_ = full
		_, two = v2.FullyValidateMessage(ctx, pv)
	}
	if !oneFirst {
		_, one = v1.ValidateMessage(ctx, &orig)
	}
	sym.Cover("validated-both-ways")
	sym.Assert((one == nil) == valid, "one-shot accepts iff valid")
	if wrongChain && !orig.Vote.Value.IsZero() {
		sym.Cover("wrong-chain")
		sym.Assert(two != nil, "a completing chain whose key differs from the announced key is never admitted")
	} else {
		sym.Assert((two == nil) == (one == nil), "two-stage accepts exactly what one-shot accepts")
	}
}

// VerifC13_AnnouncedKey: a valid message announced under a tampered key
// (zero, or the key of another chain) is never admitted through the two-stage path.
func VerifC13_AnnouncedKey() {
	c := gpbft.VerifNewCommittee()
	m := gpbft.VerifBuildValid(c)
	sym.Assume(!m.Vote.Value.IsZero())
	orig := *m
	pm, _ := (&PartialMessageManager{}).ToPartialGMessage(m)
	switch sym.Choice("announced-key", 2) {
	case 0:
		pm.VoteValueKey = gpbft.ECChainKey{}
	default:
		pm.VoteValueKey = gpbft.VerifX(4).Key()
		if orig.Vote.Value.Eq(gpbft.VerifX(4)) {
			pm.VoteValueKey = gpbft.VerifX(3).Key()
		}
	}
	v := gpbft.VerifNewValidator(c, false)
	ctx := context.Background()
	pv, err := v.PartiallyValidateMessage(ctx, pm)
	sym.Cover("tampered-key")
	if err == nil {
		verifComplete(pv.PartialMessage(), orig.Vote.Value)
		_, err = v.FullyValidateMessage(ctx, pv)
	}
	sym.Assert(err != nil, "a tampered announced key is never admitted")
}

// VerifC13_RoundTrip: completing the stripped form of a valid message with
// the original chain reproduces the original message.
func VerifC13_RoundTrip() {
	c := gpbft.VerifNewCommittee()
	m := gpbft.VerifBuildValid(c)
	orig := *m
	var origJ gpbft.Justification
	if m.Justification != nil {
		origJ = *m.Justification
		orig.Justification = &origJ
	}
	pm, err := (&PartialMessageManager{}).ToPartialGMessage(m)
	sym.Assert(err == nil, "strip succeeds")
	sym.Assert(verifMsgEq(m, &orig), "stripping does not modify the original message")
	done := verifComplete(pm, orig.Vote.Value)
	sym.Cover("round-trip")
	sym.Assert(verifMsgEq(done.GMessage, &orig), "complete(strip(m), chain(m)) == m")
}

// VerifC13_SharedCacheRecombination: a long-lived validator first sees (in
// partial form, optionally completed) a valid message m1; then a recombined
// message m2 — a correctly signed vote of any shape/value carrying m1's
// justification — goes through the two-stage path on the same validator.  It
// must be admitted exactly when one-shot validation by a fresh validator
// admits it.
func VerifC13_SharedCacheRecombination() {
	c := gpbft.VerifNewCommittee()
	s1, v1 := sym.Choice("first-shape", 9), 1+sym.Choice("first-value", 2)
	s2, v2 := sym.Choice("second-shape", 9), 1+sym.Choice("second-value", 2)
	m1 := gpbft.VerifBuildValidAt(c, s1, v1)
	m2 := gpbft.VerifBuildValidAt(c, s2, v2)
	if m1.Justification == nil || m2.Justification == nil {
		sym.Assume(false)
	}
	// recombination: m2 keeps its own (correct) signature but carries m1's justification
	j := *m1.Justification
	m2.Justification = &j
	orig2 := *m2
	oj := *m2.Justification
	orig2.Justification = &oj

	ctx := context.Background()
	warm := gpbft.VerifNewValidator(c, false)
	pmm := &PartialMessageManager{}
	keep1 := *m1
	p1, _ := pmm.ToPartialGMessage(m1)
	pv1, err := warm.PartiallyValidateMessage(ctx, p1)
	sym.Assert(err == nil, "the valid first message passes partial validation")
	if err == nil && sym.Bool("complete-first") {
		verifComplete(pv1.PartialMessage(), keep1.Vote.Value)
		_, err = warm.FullyValidateMessage(ctx, pv1)
		sym.Assert(err == nil, "the valid first message passes full validation")
	}
	// the second message, two-stage on the warm validator
	p2, _ := pmm.ToPartialGMessage(m2)
	var two error
	pv2, perr := warm.PartiallyValidateMessage(ctx, p2)
	two = perr
	if perr == nil {
		verifComplete(pv2.PartialMessage(), orig2.Vote.Value)
		_, two = warm.FullyValidateMessage(ctx, pv2)
	}
	// ground truth: one-shot validation of the completed message by a fresh validator
	completed := *p2.GMessage
	_, one := gpbft.VerifNewValidator(c, false).ValidateMessage(ctx, &completed)
	sym.Cover("recombined")
	if one == nil {
		sym.Cover("recombination-is-valid")
	}
	sym.Assert((two == nil) == (one == nil), "two-stage validation on a warm validator admits exactly what one-shot validation admits")
}

// VerifC13_ZeroKeyWithChain: a valid vote for bottom (announced key zero;
// COMMIT or PREPARE for bottom need no justification of the value) that is
// completed with a non-empty chain is rejected by full validation, exactly as
// one-shot validation rejects the completed message (its signature is over
// the zero key).
func VerifC13_ZeroKeyWithChain() {
	c := gpbft.VerifNewCommittee()
	m := gpbft.VerifBuildValid(c)
	sym.Assume(m.Vote.Value.IsZero())
	pm, err := (&PartialMessageManager{}).ToPartialGMessage(m)
	sym.Assert(err == nil && pm.VoteValueKey.IsZero(), "a bottom vote is announced under the zero key")
	v := gpbft.VerifNewValidator(c, false)
	ctx := context.Background()
	pv, err := v.PartiallyValidateMessage(ctx, pm)
	sym.Assert(err == nil, "the stripped bottom vote passes partial validation")
	if err != nil {
		return
	}
	sym.Cover("bottom-vote")
	attached := gpbft.VerifX(2 + sym.Choice("attached-chain", 2))
	pv.PartialMessage().Vote.Value = attached
	_, two := v.FullyValidateMessage(ctx, pv)
	completed := *m
	completed.Vote.Value = attached
	_, one := gpbft.VerifNewValidator(c, false).ValidateMessage(ctx, &completed)
	sym.Assert(one != nil, "one-shot validation rejects a bottom vote with a chain attached")
	sym.Assert(two != nil, "full validation rejects a chain attached under the zero key")
}

// VerifC13_ReplayUnderOtherKey: after a validator has partially validated a
// member's genuine (stripped) message, the byte-identical stripped message
// announced under the key of another chain is rejected, exactly as a fresh
// validator rejects it (the signature is over the announced key): a warm cache
// never lends a member's signature to another value.
func VerifC13_ReplayUnderOtherKey() {
	c := gpbft.VerifNewCommittee()
	m := gpbft.VerifBuildValid(c)
	sym.Assume(!m.Vote.Value.IsZero())
	pm, err := (&PartialMessageManager{}).ToPartialGMessage(m)
	sym.Assert(err == nil, "strip succeeds")
	v := gpbft.VerifNewValidator(c, false)
	ctx := context.Background()
	_, err = v.PartiallyValidateMessage(ctx, pm)
	sym.Assert(err == nil, "the genuine stripped message passes partial validation")
	if sym.Bool("completed-first") {
		if pv, e2 := v.PartiallyValidateMessage(ctx, pm); e2 == nil {
			verifComplete(pv.PartialMessage(), m.Vote.Value)
			_, _ = v.FullyValidateMessage(ctx, pv)
		}
	}
	other := gpbft.VerifX(1 + sym.Choice("other-chain", 4)) // [b], [b,2], [b,2,3], [b,4]
	sym.Assume(!other.Eq(m.Vote.Value))
	replay := *pm
	replay.VoteValueKey = other.Key()
	sym.Cover("replayed")
	pv, err := v.PartiallyValidateMessage(ctx, &replay)
	_, ferr := gpbft.VerifNewValidator(c, false).PartiallyValidateMessage(ctx, &replay)
	sym.Assert(ferr != nil, "a fresh validator rejects the replay under another key")
	if err == nil {
		verifComplete(pv.PartialMessage(), other)
		_, err = v.FullyValidateMessage(ctx, pv)
	}
	sym.Assert(err != nil, "the replay of a member's message under the key of another chain is never admitted")
}
