//go:build verif

package certexchange

import (
	"bytes"
	"context"
	"encoding/binary"
	"io"
	"time"

	"github.com/filecoin-project/go-f3/certs"
	"github.com/filecoin-project/go-f3/certstore"
	sym "github.com/filecoin-project/go-f3/internal/verifsym"
	"github.com/libp2p/go-libp2p/core/network"
)

// verifStream is a network.Stream fed from a byte slice and recording writes.
type verifStream struct {
	network.Stream
	in     *bytes.Reader
	out    bytes.Buffer
	closed bool
	reset  bool
}

func (s *verifStream) Read(p []byte) (int, error)    { return s.in.Read(p) }
func (s *verifStream) Write(p []byte) (int, error)   { return s.out.Write(p) }
func (s *verifStream) Close() error                  { s.closed = true; return nil }
func (s *verifStream) CloseWrite() error             { return nil }
func (s *verifStream) CloseRead() error              { return nil }
func (s *verifStream) Reset() error                  { s.reset = true; return nil }
func (s *verifStream) SetDeadline(time.Time) error   { return nil }
func (s *verifStream) SetReadDeadline(time.Time) error  { return nil }
func (s *verifStream) SetWriteDeadline(time.Time) error { return nil }

func verifU64(b *bytes.Buffer, v uint64) {
	b.WriteByte(0x1b)
	var x [8]byte
	binary.BigEndian.PutUint64(x[:], v)
	b.Write(x[:])
}

// VerifC16_ServerRange: the real request handler over a real store; request
// fields are arbitrary uint64s.  What is written to the stream is compared
// with the store.
func VerifC16_ServerRange() {
	ctx := context.Background()
	k := sym.Choice("stored", 4)
	storeFirst := uint64(1)
	cs, stored, tables, _ := certstore.VerifNewStore(storeFirst, k)
	first := sym.Uint64("first")
	limit := sym.Uint64("limit")
	incPT := sym.Bool("include-power-table")

	var req bytes.Buffer
	if err := (&Request{FirstInstance: first, Limit: limit, IncludePowerTable: incPT}).MarshalCBOR(&req); err != nil {
		panic(err)
	}
	st := &verifStream{in: bytes.NewReader(req.Bytes())}
	srv := &Server{NetworkName: "verif", Store: cs}
	err := srv.handleRequest(ctx, st)
	pending := storeFirst + uint64(k)
	if k == 0 {
		pending = 0
	}
	if err != nil {
		// only legitimate failure: a power table was requested for an instance the store cannot serve
		sym.Cover("request-failed")
		sym.Note("err: " + err.Error())
		sym.Assert(incPT && (first < storeFirst || first > pending) && pending >= first, "server-fails-only-on-unservable-power-table")
		return
	}
	sym.Cover("responded")
	r := bytes.NewReader(st.out.Bytes())
	var hdr ResponseHeader
	sym.Assert(hdr.UnmarshalCBOR(r) == nil, "response-header-decodes")
	sym.Assert(hdr.PendingInstance == pending, "advertised-pending-is-next-instance")
	if incPT && pending >= first {
		sym.Cover("power-table-served")
		sym.Assert(first >= storeFirst && first <= pending && hdr.PowerTable.Equal(tables[first-storeFirst]), "power-table-is-that-of-first-requested-instance")
	} else {
		sym.Assert(len(hdr.PowerTable) == 0, "no-power-table-unless-requested")
	}
	count := uint64(0)
	for r.Len() > 0 {
		var c certs.FinalityCertificate
		if err := c.UnmarshalCBOR(r); err != nil {
			sym.Assert(false, "certificate-decodes")
			return
		}
		inst := first + count
		sym.Assert(c.GPBFTInstance == inst, "in-order-from-first")
		sym.Assert(inst < pending, "never-at-or-beyond-pending")
		if inst >= storeFirst && inst < pending {
			sym.Assert(certstore.VerifCertEq(&c, stored[inst-storeFirst]), "equals-stored-certificate")
		}
		count++
	}
	if count > 0 {
		sym.Cover("certificates-served")
	}
	sym.Assert(count <= maxResponseLen, "at-most-max-response-len")
	sym.Assert(count <= limit, "KNOWN:c16-server-limit-plus-one:never more than requested")
	// completeness: everything available within the limit is served
	if first >= storeFirst && first < pending {
		want := pending - first
		if limit < want {
			want = limit
		}
		sym.Assert(count >= want, "serves-what-is-available-within-limit")
	}
	_ = io.EOF
}
