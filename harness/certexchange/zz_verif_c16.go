//go:build verif

package certexchange

import (
	"bytes"
	"context"
	"encoding/binary"
	"io"
	"time"

	"github.com/filecoin-project/go-f3/certs"
	"github.com/filecoin-project/go-f3/certstore"
	"github.com/filecoin-project/go-f3/gpbft"
	"github.com/libp2p/go-libp2p/core/host"
	"github.com/libp2p/go-libp2p/core/peer"
	"github.com/libp2p/go-libp2p/core/protocol"
	sym "github.com/filecoin-project/go-f3/internal/verifsym"
	"github.com/libp2p/go-libp2p/core/network"
)

// verifStream is a network.Stream fed from a byte slice and recording writes.
type verifStream struct {
	network.Stream
	in     *bytes.Reader
	out    bytes.Buffer
	closed bool
	reset  bool
}

func (s *verifStream) Read(p []byte) (int, error)    { return s.in.Read(p) }
func (s *verifStream) Write(p []byte) (int, error)   { return s.out.Write(p) }
func (s *verifStream) Close() error                  { s.closed = true; return nil }
func (s *verifStream) CloseWrite() error             { return nil }
func (s *verifStream) CloseRead() error              { return nil }
func (s *verifStream) Reset() error                  { s.reset = true; return nil }
func (s *verifStream) SetDeadline(time.Time) error   { return nil }
func (s *verifStream) SetReadDeadline(time.Time) error  { return nil }
func (s *verifStream) SetWriteDeadline(time.Time) error { return nil }

func verifU64(b *bytes.Buffer, v uint64) {
	b.WriteByte(0x1b)
	var x [8]byte
	binary.BigEndian.PutUint64(x[:], v)
	b.Write(x[:])
}

// VerifC16_ServerRange: the real request handler over a real store; request
// fields are arbitrary uint64s.  What is written to the stream is compared
// with the store.
func VerifC16_ServerRange() {
	ctx := context.Background()
	k := sym.Choice("stored", 4)
	storeFirst := uint64(1)
	cs, stored, tables, _ := certstore.VerifNewStore(storeFirst, k)
	first := sym.Uint64("first")
	limit := sym.Uint64("limit")
	incPT := sym.Bool("include-power-table")

	var req bytes.Buffer
	if err := (&Request{FirstInstance: first, Limit: limit, IncludePowerTable: incPT}).MarshalCBOR(&req); err != nil {
		panic(err)
	}
	st := &verifStream{in: bytes.NewReader(req.Bytes())}
	srv := &Server{NetworkName: "verif", Store: cs}
	err := srv.handleRequest(ctx, st)
	pending := storeFirst + uint64(k)
	if k == 0 {
		pending = 0
	}
	if err != nil {
		// only legitimate failure: a power table was requested for an instance the store cannot serve
		sym.Cover("request-failed")
		sym.Note("err: " + err.Error())
		sym.Assert(incPT && (first < storeFirst || first > pending) && pending >= first, "server-fails-only-on-unservable-power-table")
		return
	}
	sym.Cover("responded")
	r := bytes.NewReader(st.out.Bytes())
	var hdr ResponseHeader
	sym.Assert(hdr.UnmarshalCBOR(r) == nil, "response-header-decodes")
	sym.Assert(hdr.PendingInstance == pending, "advertised-pending-is-next-instance")
	if incPT && pending >= first {
		sym.Cover("power-table-served")
		sym.Assert(first >= storeFirst && first <= pending && hdr.PowerTable.Equal(tables[first-storeFirst]), "power-table-is-that-of-first-requested-instance")
	} else {
		sym.Assert(len(hdr.PowerTable) == 0, "no-power-table-unless-requested")
	}
	count := uint64(0)
	for r.Len() > 0 {
		var c certs.FinalityCertificate
		if err := c.UnmarshalCBOR(r); err != nil {
			sym.Assert(false, "certificate-decodes")
			return
		}
		inst := first + count
		sym.Assert(c.GPBFTInstance == inst, "in-order-from-first")
		sym.Assert(inst < pending, "never-at-or-beyond-pending")
		if inst >= storeFirst && inst < pending {
			sym.Assert(certstore.VerifCertEq(&c, stored[inst-storeFirst]), "equals-stored-certificate")
		}
		count++
	}
	if count > 0 {
		sym.Cover("certificates-served")
	}
	sym.Assert(count <= maxResponseLen, "at-most-max-response-len")
	sym.Assert(count <= limit, "KNOWN:c16-server-limit-plus-one:never more than requested")
	// completeness: everything available within the limit is served
	if first >= storeFirst && first < pending {
		want := pending - first
		if limit < want {
			want = limit
		}
		sym.Assert(count >= want, "serves-what-is-available-within-limit")
	}
	_ = io.EOF
}

// ---- client side ----

// VerifHost is a libp2p host whose only behaviour is NewStream: the k-th
// stream opened serves the k-th scripted response (a Byzantine responder).
type VerifHost struct {
	host.Host
	Responses [][]byte
	Requests  []Request
	OnStream  func()
	opened    int
	attempts  int
	streams   []*verifStream
}

// Opened is the number of streams the client tried to open.
func (h *VerifHost) Opened() int { return h.attempts }

func (h *VerifHost) NewStream(ctx context.Context, p peer.ID, pids ...protocol.ID) (network.Stream, error) {
	h.attempts++
	if h.OnStream != nil {
		h.OnStream()
	}
	if h.opened >= len(h.Responses) {
		return nil, io.ErrClosedPipe
	}
	st := &verifStream{in: bytes.NewReader(h.Responses[h.opened])}
	h.opened++
	h.streams = append(h.streams, st)
	return st, nil
}

// Sent returns the requests written by the client so far (decoded).
func (h *VerifHost) Sent() []Request {
	var out []Request
	for _, st := range h.streams {
		var r Request
		if err := r.UnmarshalCBOR(bytes.NewReader(st.out.Bytes())); err == nil {
			out = append(out, r)
		}
	}
	return out
}

// VerifResponse encodes a response: header plus certificates (real codecs),
// optionally cut short by `cut` bytes.
func VerifResponse(pending uint64, pt gpbft.PowerEntries, cut int, cs ...*certs.FinalityCertificate) []byte {
	var b bytes.Buffer
	if err := (&ResponseHeader{PendingInstance: pending, PowerTable: pt}).MarshalCBOR(&b); err != nil {
		panic(err)
	}
	for _, c := range cs {
		if err := c.MarshalCBOR(&b); err != nil {
			panic(err)
		}
	}
	out := b.Bytes()
	if cut > 0 && cut < len(out) {
		out = out[:len(out)-cut]
	}
	return out
}

// VerifC16_ClientSequence: the real Client.Request against a responder that
// sends up to three certificates with arbitrary instance numbers, possibly
// truncated: what the client delivers is exactly the longest in-sequence
// prefix within the limit, equal to what was sent.
func VerifC16_ClientSequence() {
	ctx := context.Background()
	// every integer on the wire is arbitrary within one CBOR width class per
	// run (immediate or 8-byte), so that encoding does not fork per field
	wide := sym.Bool("wide")
	inClass := func(v uint64) bool {
		if wide {
			return sym.And(v >= 1<<32, v < 1<<63)
		}
		return v < 20
	}
	first := sym.Uint64("first")
	sym.Assume(inClass(first))
	limit := uint64(sym.Choice("limit", 5))
	if limit == 4 {
		limit = sym.Uint64("big-limit")
		sym.Assume(limit >= 1<<32)
	}
	n := sym.Choice("sent", 4)
	var sent []*certs.FinalityCertificate
	for i := 0; i < n; i++ {
		inst := first + uint64(i)
		if sym.Bool("off-sequence") {
			inst = sym.Uint64("instance")
			sym.Assume(inClass(inst))
		}
		sent = append(sent, certstore.VerifCert(inst, i))
	}
	cut := 0
	if n > 0 {
		cut = sym.Choice("cut", 3) * 7 // 0, 7 or 14 bytes missing at the end of the last certificate
	}
	pending := sym.Uint64("pending")
	sym.Assume(inClass(pending))
	h := &VerifHost{Responses: [][]byte{VerifResponse(pending, nil, cut, sent...)}}
	c := &Client{Host: h, NetworkName: "verif"}
	hdr, ch, err := c.Request(ctx, "peer", &Request{FirstInstance: first, Limit: limit})
	if err != nil {
		sym.Cover("request-error")
		sym.Assert(false, "header-of-a-wellformed-response-is-read")
		return
	}
	sym.Cover("header-read")
	sym.Assert(hdr.PendingInstance == pending, "pending-instance-as-sent")
	reqs := h.Sent()
	sym.Assert(len(reqs) == 1 && reqs[0].FirstInstance == first && reqs[0].Limit == limit && !reqs[0].IncludePowerTable, "request-on-the-wire-is-the-request")
	var got []*certs.FinalityCertificate
	for cert := range ch {
		got = append(got, cert)
	}
	// reference: longest prefix of complete, in-sequence certificates within the limit
	want := 0
	for want < n && uint64(want) < limit {
		if cut > 0 && want == n-1 {
			break
		}
		if sent[want].GPBFTInstance != first+uint64(want) {
			break
		}
		want++
	}
	if want > 0 {
		sym.Cover("delivered")
	}
	if want < n {
		sym.Cover("cut-short")
	}
	sym.Assert(uint64(len(got)) <= limit, "never-more-than-requested")
	for i, g := range got {
		sym.Assert(g.GPBFTInstance == first+uint64(i), "delivered-in-sequence-from-first")
		sym.Assert(i < n && certstore.VerifCertEq(g, sent[i]), "delivered-equals-sent")
	}
	sym.Assert(len(got) == want, "delivers-exactly-the-in-sequence-prefix")
}
