//go:build verif

package polling

import (
	"context"
	"time"

	"github.com/filecoin-project/go-f3/certexchange"
	"github.com/filecoin-project/go-f3/certs"
	"github.com/filecoin-project/go-f3/certstore"
	"github.com/filecoin-project/go-f3/gpbft"
	"github.com/filecoin-project/go-f3/internal/clock"
	sym "github.com/filecoin-project/go-f3/internal/verifsym"
	"github.com/libp2p/go-libp2p/core/peer"
)

// verifClock wraps the mock clock: the polling timer fires at once (so that
// one iteration of the real run loop can be executed without waiting), and
// the instants the subscriber asks about are recorded.
type verifClock struct {
	clock.Clock
	mock      *clock.Mock
	timerD    []time.Duration
	untilArg  []time.Time
	untilNow  []time.Time
	untilRes  []time.Duration
	sinceRes  []time.Duration
}

func (c *verifClock) Timer(d time.Duration) *clock.Timer {
	c.timerD = append(c.timerD, d)
	return c.mock.Timer(0)
}

func (c *verifClock) Until(t time.Time) time.Duration {
	r := c.mock.Until(t)
	c.untilArg = append(c.untilArg, t)
	c.untilNow = append(c.untilNow, c.mock.Now())
	c.untilRes = append(c.untilRes, r)
	return r
}

func (c *verifClock) Since(t time.Time) time.Duration {
	r := c.mock.Since(t)
	c.sinceRes = append(c.sinceRes, r)
	return r
}

// verifCtx is the run loop's context: Err() stays nil for `rounds` loop
// iterations, reports each completed iteration on iterDone, then cancels.
type verifCtx struct {
	context.Context
	calls    int
	rounds   int
	iterDone chan int
}

func (c *verifCtx) Err() error {
	c.calls++
	if c.calls > 1 {
		c.iterDone <- c.calls - 1
	}
	if c.calls > c.rounds {
		return context.Canceled
	}
	return nil
}
func (c *verifCtx) Done() <-chan struct{} { return nil }

type verifSub struct {
	s      *Subscriber
	h      *certexchange.VerifHost
	clk    *verifClock
	cs     *certstore.Store
	all    []*certs.FinalityCertificate
	held   int
}

// verifSubscriber builds a Subscriber by hand (what Start does, minus libp2p
// peer discovery) over a store holding `held` certificates, knowing `peers` peers.
func verifSubscriber(held int, peers int, minI, initI, maxI time.Duration) *verifSub {
	ctx := context.Background()
	all, tables := certs.VerifCertSeq(0, 4)
	cs := certstore.VerifNewStoreWith(0, tables[0], all[:held]...)
	mock := clock.NewMock()
	clk := &verifClock{Clock: mock, mock: mock}
	h := &certexchange.VerifHost{}
	s := &Subscriber{
		Client:              certexchange.Client{Host: h, NetworkName: "verif"},
		Store:               cs,
		SignatureVerifier:   gpbft.VerifCrypto{},
		InitialPollInterval: initI, MaximumPollInterval: maxI, MinimumPollInterval: minI,
	}
	s.clock = clk
	s.peerTracker = newPeerTracker(clk)
	var err error
	s.poller, err = NewPoller(ctx, &s.Client, cs, gpbft.VerifCrypto{})
	if err != nil {
		panic(err)
	}
	// request latencies feed the peer tracker's floating-point statistics, which are
	// outside the claim: the poller measures them on a clock that stands still
	s.poller.clock = clock.NewMock()
	for i := 0; i < peers; i++ {
		s.peerTracker.peerSeen(verifPeer(i))
	}
	return &verifSub{s: s, h: h, clk: clk, cs: cs, all: all, held: held}
}

func verifPeer(i int) peer.ID { return peer.ID([]byte{'p', byte('0' + i)}) }

// VerifC20_PollProgress: the progress reported by one polling round equals
// the number of instances by which the poller (and the store) advanced,
// whatever mix of peers answers (some lagging, some failing, some serving
// one or two certificates) and whatever arrives locally meanwhile.
func VerifC20_PollProgress() {
	ctx := context.Background()
	held := sym.Choice("held", 2)
	npeers := 1 + sym.Choice("peers-minus-1", 2)
	v := verifSubscriber(held, npeers, time.Second, 10*time.Second, 100*time.Second)
	// the local GPBFT instance may finish between the loop's catch-up and the poll
	local := sym.Choice("local-certificate-before-poll", 2)
	if local == 1 {
		if err := v.cs.Put(ctx, v.all[held]); err != nil {
			panic(err)
		}
		sym.Cover("local-advance")
	}
	next := uint64(held + local)
	fromNetwork := 0
	// one scripted response per peer, in polling order
	for i := 0; i < npeers; i++ {
		k := sym.Choice("serves", 4) // 0..2 genuine certificates, or 3 = the peer fails
		if k == 3 {
			v.h.Responses = append(v.h.Responses, []byte{0xff})
			continue
		}
		if int(next)+k > len(v.all) {
			sym.Assume(false)
		}
		pending := next + uint64(k)
		if sym.Bool("lagging") {
			pending = 0
			k = 0
		}
		v.h.Responses = append(v.h.Responses, certexchange.VerifResponse(pending, nil, 0, v.all[next:next+uint64(k)]...))
		next += uint64(k)
		fromNetwork += k
	}
	before := v.s.poller.NextInstance
	progress, newCert, err := v.s.poll(ctx)
	sym.Assert(err == nil, "poll-has-no-internal-error")
	if err != nil {
		return
	}
	sym.Cover("polled")
	after := v.s.poller.NextInstance
	latest := uint64(0)
	if l := v.cs.Latest(); l != nil {
		latest = l.GPBFTInstance + 1
	}
	if after > before {
		sym.Cover("advanced")
	} else {
		sym.Cover("no-progress")
	}
	sym.Assert(after == latest && after >= before, "poller-follows-the-store")
	sym.Assert(progress == after-before, "progress-is-the-number-of-instances-advanced")
	sym.Assert(latest == uint64(held+local+fromNetwork), "store-advanced-by-local-and-network-certificates")
	sym.Assert(newCert == (fromNetwork > 0), "new-flag-iff-a-certificate-from-a-peer-was-stored")
}

// VerifC20_RunLoopTimer: one iteration of the real Subscriber.run loop (real
// predictor, poll, poller, client, store, mock clock).  The request takes an
// arbitrary time; 0..2 certificates arrive from the network or locally.  The
// interval is the reference predictor's on the true progress, and the timer
// is programmed to fire no earlier than the predicted poll time and no later
// than that plus the request time, capped at half the predicted wait: checked
// by advancing the clock by an arbitrary amount and observing whether the
// subscriber polls again.
func VerifC20_RunLoopTimer() {
	// interval settings: a few representative concrete triples (the predictor's
	// arithmetic over arbitrary settings is VerifC20_PredictorLaws' subject);
	// request time and probe time are arbitrary
	var minI, initI, maxI int64
	switch sym.Choice("settings", 4) {
	case 3: // arbitrary settings
		minI, initI, maxI = sym.Int64("min"), sym.Int64("initial"), sym.Int64("max")
		sym.Assume(sym.And(1000 <= minI, sym.And(minI <= initI, sym.And(initI <= maxI, maxI < 1<<40))))
	case 0:
		minI, initI, maxI = int64(time.Second), int64(10*time.Second), int64(100*time.Second)
	case 1:
		minI, initI, maxI = 1000, 1001, 2003 // tiny, odd
	default:
		minI, initI, maxI = int64(30*time.Second), int64(30*time.Second), int64(30*time.Second) // degenerate
	}
	held := sym.Choice("held", 2)
	v := verifSubscriber(held, 1, time.Duration(minI), time.Duration(initI), time.Duration(maxI))
	// progress: k certificates from the network, or one from the local instance
	k := sym.Choice("served", 3)
	local := 0
	if k == 0 && sym.Bool("local-progress") {
		local = 1
		if err := v.cs.Put(context.Background(), v.all[held]); err != nil {
			panic(err)
		}
	}
	next := uint64(held)
	v.h.Responses = [][]byte{certexchange.VerifResponse(next+uint64(k), nil, 0, v.all[next:next+uint64(k)]...)}
	rt := sym.Int64("request-time")
	sym.Assume(sym.And(0 <= rt, rt < 1<<40))
	first := true
	v.h.OnStream = func() {
		if first { // the (first) request takes rt
			first = false
			v.clk.mock.Add(time.Duration(rt))
		}
	}
	ctx := &verifCtx{Context: context.Background(), rounds: 2, iterDone: make(chan int, 4)}
	go func() { _ = v.s.run(ctx) }()
	<-ctx.iterDone // first iteration complete, timer re-armed
	sym.Cover("iteration")
	sym.Assert(len(v.clk.timerD) == 1 && v.clk.timerD[0] == time.Duration(initI), "first-poll-after-the-initial-interval")

	// reference: the predictor on the true progress
	ref := newPredictor(time.Duration(minI), time.Duration(initI), time.Duration(maxI))
	trueProgress := uint64(k + local)
	interval := ref.update(trueProgress)
	sym.Assert(len(v.clk.untilArg) == 1, "one-delay-computation")
	if len(v.clk.untilArg) != 1 {
		return
	}
	pollTime := time.Unix(0, 0) // the mock clock's origin: the timer fired at once
	sym.Assert(v.clk.untilArg[0].Equal(pollTime.Add(interval)), "next-poll-time-is-poll-time-plus-predicted-interval")
	requestTime := time.Duration(0)
	if local == 0 {
		requestTime = time.Duration(rt)
	}
	base := max(interval-requestTime, 0) // time left until the predicted poll time
	if local == 1 {
		base = interval
	}
	ext := min(requestTime, base/2)
	// probe: advance the clock by x and see whether the subscriber polls again
	x := sym.Int64("probe")
	sym.Assume(sym.And(0 <= x, x < 1<<42))
	polls := v.h.Opened()
	catchups := len(v.clk.untilArg)
	v.clk.mock.Add(time.Duration(x))
	verifSettle()
	fired := v.h.Opened() > polls || len(v.clk.untilArg) > catchups
	if fired {
		sym.Cover("fired")
		sym.Assert(time.Duration(x) >= base, "never-polls-before-the-predicted-time")
	} else {
		sym.Cover("not-fired")
		sym.Assert(time.Duration(x) < base+ext || time.Duration(x) < base+1, "waits-at-most-request-time-and-half-the-interval-longer")
	}
}

func verifSettle() {
	if sym.Engine() {
		time.Sleep(1)
		return
	}
	time.Sleep(100 * time.Millisecond)
}

// VerifC20_RunLoopTwoRounds: two consecutive iterations of the real run loop.
// In the first the request takes an arbitrary time while the local instance
// finishes (the one case in which the wait is extended by the request time);
// the second poll takes no time and brings nothing.  The second wait is the
// predicted (back-off) interval and nothing more: an extension granted in one
// round is not carried over into the next.
func VerifC20_RunLoopTwoRounds() {
	held := sym.Choice("held", 2)
	// two peers: the certificate arrives locally during the request to the first, the
	// catch-up before the request to the second one notices it
	v := verifSubscriber(held, 2, time.Second, 10*time.Second, 100*time.Second)
	rt := sym.Int64("request-time")
	sym.Assume(sym.And(0 <= rt, rt <= int64(2*time.Second)))
	first := true
	v.h.OnStream = func() {
		if first { // during the first request the local instance finishes; the request takes rt
			first = false
			if err := v.cs.Put(context.Background(), v.all[held]); err != nil {
				panic(err)
			}
			v.clk.mock.Add(time.Duration(rt))
		}
	}
	lagging := certexchange.VerifResponse(0, nil, 0)
	v.h.Responses = [][]byte{lagging, lagging, lagging, lagging, lagging, lagging}
	ctx := &verifCtx{Context: context.Background(), rounds: 3, iterDone: make(chan int, 4)}
	go func() { _ = v.s.run(ctx) }()
	<-ctx.iterDone
	ref := newPredictor(time.Second, 10*time.Second, 100*time.Second)
	i1 := ref.update(1)
	sym.Assert(len(v.clk.untilArg) == 1 && v.clk.untilArg[0].Equal(time.Unix(0, 0).Add(i1)), "round 1: progress 1 was fed to the predictor")
	// let the timer fire once (it is due 10 s after the first poll ended; the next one not before 18 s)
	v.clk.mock.Add(15 * time.Second)
	<-ctx.iterDone
	sym.Cover("second-round")
	i2 := ref.update(0)
	sym.Assert(len(v.clk.untilArg) == 2, "round 2 computed its delay")
	if len(v.clk.untilArg) != 2 {
		return
	}
	// round 1 waited i1 beyond the end of its request (the request time is the one
	// extension it was entitled to), so round 2 polls at rt + i1 and aims at i2 later
	sym.Assert(v.clk.untilArg[1].Equal(time.Unix(0, 0).Add(time.Duration(rt)+i1+i2)), "round 2: next poll time is poll time plus the predicted interval")
	need := v.clk.untilArg[1].Sub(v.clk.mock.Now()) // what is left of the predicted wait
	x := sym.Int64("probe")
	sym.Assume(sym.And(0 <= x, x < int64(40*time.Second)))
	polls := v.h.Opened()
	v.clk.mock.Add(time.Duration(x))
	verifSettle()
	fired := v.h.Opened() > polls
	if fired {
		sym.Cover("fired")
	} else {
		sym.Cover("not-fired")
	}
	sym.Assert(fired == (time.Duration(x) >= need), "round 2: the wait is the predicted interval, not extended by the first round's request time")
}
