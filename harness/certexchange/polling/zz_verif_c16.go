//go:build verif

package polling

import (
	"context"

	"github.com/filecoin-project/go-f3/certexchange"
	"github.com/filecoin-project/go-f3/certs"
	"github.com/filecoin-project/go-f3/certstore"
	"github.com/filecoin-project/go-f3/gpbft"
	sym "github.com/filecoin-project/go-f3/internal/verifsym"
)

const verifUniverse = 4

// verifScript builds a Byzantine responder's script: up to `nresp` responses,
// each with an arbitrary small advertised pending instance and 0..2
// certificates, each of which is (relative to what an honest poller would ask
// for at that point) the right certificate, a forged variant of it, or the
// right certificate of the following instance (out of sequence).  It returns
// the responses and whether any response contains a forged certificate.
func verifScript(all []*certs.FinalityCertificate, tidx []int, first uint64, next uint64, nresp int) (resps [][]byte, forged bool, pending0 uint64, count0 int, kind0 int) {
	for r := 0; r < nresp; r++ {
		pending := uint64(sym.Uint8("pending"))
		sym.Assume(pending < 20)
		m := sym.Choice("count", 3)
		if r == 0 {
			pending0, count0 = pending, m
		}
		var cs []*certs.FinalityCertificate
		pos := next
		for j := 0; j < m; j++ {
			idx := int(pos - first)
			if idx+1 >= len(all) {
				sym.Assume(false)
			}
			kind := sym.Choice("kind", 6)
			if r == 0 && j == 0 {
				kind0 = kind
			}
			switch kind {
			case 0:
				cs = append(cs, all[idx])
				pos++
			case 5:
				cs = append(cs, all[idx+1]) // skips one instance
				pos += 2
			default:
				cs = append(cs, certs.VerifForge(all[idx], tidx[idx], kind-1))
				forged = true
				pos++
			}
		}
		resps = append(resps, certexchange.VerifResponse(pending, nil, 0, cs...))
		// an honest poller advances at most by the certificates sent
		next = pos
	}
	return resps, forged, pending0, count0, kind0
}

// VerifC16_PollerByzantine: the real Poller (real Client, real store, real
// certificate validation with ideal signatures) against a Byzantine responder.
// Whatever is sent, the store only ever holds the genuine certificates, in
// order; the poller's next instance and power table follow the store; and the
// peer is classified consistently with what it sent.
func VerifC16_PollerByzantine() {
	ctx := context.Background()
	const first = uint64(0)
	// committee evolution with an instance that leaves the table unchanged
	tidx := []int{0, 1, 1, 2, 3}
	all, tables := certs.VerifCertSeqTables(first, tidx)
	held := sym.Choice("held", 2)
	cs := certstore.VerifNewStoreWith(first, tables[0], all[:held]...)
	h := &certexchange.VerifHost{}
	p, err := NewPoller(ctx, &certexchange.Client{Host: h, NetworkName: "verif"}, cs, gpbft.VerifCrypto{})
	if err != nil {
		sym.Assert(false, "poller-created")
		return
	}
	sym.Assert(p.NextInstance == first+uint64(held), "poller-starts-after-latest")
	// the local GPBFT instance may have finished meanwhile
	local := sym.Choice("local", 3)
	if held+local >= verifUniverse {
		sym.Assume(false)
	}
	for _, c := range all[held : held+local] {
		if err := cs.Put(ctx, c); err != nil {
			panic(err)
		}
	}
	start := first + uint64(held+local)
	resps, forged, pending0, count0, kind0 := verifScript(all, tidx, first, start, 1+sym.Choice("more-responses", 2))
	h.Responses = resps

	res, err := p.Poll(ctx, "peer")
	sym.Assert(err == nil && res != nil, "poll-has-no-internal-error")
	if err != nil || res == nil {
		return
	}
	sym.Cover("polled")

	// the store holds only genuine certificates, gap-free from first
	latest := cs.Latest()
	stored := uint64(0)
	if latest != nil {
		stored = latest.GPBFTInstance + 1 - first
	}
	sym.Assert(stored >= uint64(held+local) && stored <= verifUniverse, "store-only-advances")
	for i := uint64(0); i < stored && i < verifUniverse; i++ {
		c, err := cs.Get(ctx, first+i)
		sym.Assert(err == nil && certstore.VerifCertEq(c, all[i]), "stored-certificates-are-the-genuine-ones")
	}
	// the poller advanced exactly by what was validated and stored
	sym.Assert(p.NextInstance == first+stored, "next-instance-follows-the-store")
	if stored <= verifUniverse {
		sym.Assert(p.PowerTable.Equal(tables[stored]), "power-table-is-that-of-next-instance")
	}
	sym.Assert(res.ReceivedCertificates == stored-uint64(held+local), "received-counts-validated-certificates")
	sym.Assert(res.NewCertificates == res.ReceivedCertificates, "new-counts-stored-certificates")
	if stored > uint64(held+local) {
		sym.Cover("advanced")
	}
	// classification
	switch res.Status {
	case PollIllegal:
		sym.Cover("illegal")
		sym.Assert(forged, "illegal-only-if-a-forged-certificate-was-sent")
		sym.Assert(res.Error != nil, "illegal-carries-the-error")
	case PollHit:
		sym.Cover("hit")
	case PollMiss:
		sym.Cover("miss")
	case PollFailed:
		sym.Cover("failed")
	default:
		sym.Assert(false, "status-is-one-of-four")
	}
	// classification of the simplest behaviours, from the property text
	switch {
	case count0 > 0 && kind0 >= 1 && kind0 <= 4:
		sym.Cover("forged-first")
		sym.Assert(res.Status == PollIllegal && stored == uint64(held+local), "a-forged-certificate-is-illegal-and-not-stored")
	case count0 == 0 || kind0 == 5:
		// nothing usable delivered
		sym.Assert(stored == uint64(held+local), "nothing-delivered-nothing-stored")
		if pending0 > start {
			sym.Assert(res.Status == PollFailed, "claims-more-sends-none-is-a-failure")
		} else if pending0 == start {
			sym.Assert(res.Status == PollHit, "caught-up-peer-is-a-hit")
		} else {
			sym.Assert(res.Status == PollMiss, "lagging-peer-is-a-miss")
		}
	default:
		sym.Assert(stored > uint64(held+local), "a-genuine-next-certificate-is-stored")
		sym.Assert(res.Status != PollMiss || pending0 < start, "miss-only-if-advertised-behind")
	}
	reqs := h.Sent()
	sym.Assert(len(reqs) >= 1 && reqs[0].FirstInstance == start, "first-request-asks-for-next-instance")
	for i, r := range reqs {
		sym.Assert(r.Limit <= maxRequestLength && !r.IncludePowerTable, "requests-are-bounded")
		if i > 0 {
			sym.Assert(r.FirstInstance > reqs[i-1].FirstInstance, "follow-up-requests-only-after-progress")
		}
	}
	sym.Assert(reqs[len(reqs)-1].FirstInstance <= first+stored, "requests-never-skip-instances")
}

// VerifC16_PollerRacesLocalProgress: while a request is under way the local
// GPBFT instance finishes one or two instances; the (honest) peer's response
// overlaps with what arrived locally.  The poller still advances over the
// whole valid response, stores what the store does not hold yet, never calls
// the honest peer illegal, and after catching up its next instance and power
// table are those of the store.
func VerifC16_PollerRacesLocalProgress() {
	ctx := context.Background()
	const first = uint64(0)
	tidx := []int{0, 1, 1, 2, 3}
	all, tables := certs.VerifCertSeqTables(first, tidx)
	held := sym.Choice("held", 2)
	cs := certstore.VerifNewStoreWith(first, tables[0], all[:held]...)
	h := &certexchange.VerifHost{}
	p, err := NewPoller(ctx, &certexchange.Client{Host: h, NetworkName: "verif"}, cs, gpbft.VerifCrypto{})
	sym.Assume(err == nil)
	start := held
	d := 1 + sym.Choice("local-during-request-minus-1", 2)
	n := sym.Choice("peer-sends", 4)
	if start+d > verifUniverse || start+n > verifUniverse {
		sym.Assume(false)
	}
	done := false
	h.OnStream = func() {
		if !done {
			done = true
			for _, c := range all[start : start+d] {
				if err := cs.Put(ctx, c); err != nil {
					panic(err)
				}
			}
		}
	}
	h.Responses = [][]byte{certexchange.VerifResponse(first+uint64(start+n), nil, 0, all[start:start+n]...)}
	res, err := p.Poll(ctx, "peer")
	sym.Assert(err == nil && res != nil, "poll-has-no-internal-error")
	if err != nil || res == nil {
		return
	}
	sym.Cover("raced")
	sym.Assert(res.Status != PollIllegal, "an honest peer is never classified illegal")
	sym.Assert(res.Status == PollHit, "a peer that is at least as far as the request is a hit")
	want := uint64(max(start+d, start+n))
	latest := cs.Latest()
	sym.Assert(latest != nil && latest.GPBFTInstance+1 == first+want, "store holds everything that arrived, locally or from the peer")
	for i := uint64(0); i < want; i++ {
		c, err := cs.Get(ctx, first+i)
		sym.Assert(err == nil && certstore.VerifCertEq(c, all[i]), "stored-certificates-are-the-genuine-ones")
	}
	sym.Assert(res.ReceivedCertificates == uint64(n), "every valid certificate of the response is counted")
	_, err = p.CatchUp(ctx)
	sym.Assert(err == nil && p.NextInstance == first+want && p.PowerTable.Equal(tables[want]), "after catching up the poller is where the store is")
}

// VerifC16_PollerStopsAsking: a peer that served one certificate and then keeps
// claiming to have more while sending none does not keep the poller asking for
// ever: a response that brings no progress ends the poll.
func VerifC16_PollerStopsAsking() {
	ctx := context.Background()
	const first = uint64(0)
	all, tables := certs.VerifCertSeqTables(first, []int{0, 1, 1, 2, 3})
	cs := certstore.VerifNewStoreWith(first, tables[0])
	h := &certexchange.VerifHost{}
	p, err := NewPoller(ctx, &certexchange.Client{Host: h, NetworkName: "verif"}, cs, gpbft.VerifCrypto{})
	sym.Assume(err == nil)
	served := 1 + sym.Choice("served-first-minus-1", 2)
	h.Responses = [][]byte{certexchange.VerifResponse(first+9, nil, 0, all[:served]...)}
	empties := 2 + sym.Choice("empty-responses-minus-2", 4)
	for i := 0; i < empties; i++ {
		h.Responses = append(h.Responses, certexchange.VerifResponse(first+9, nil, 0))
	}
	res, err := p.Poll(ctx, "peer")
	sym.Assert(err == nil && res != nil, "poll-has-no-internal-error")
	sym.Cover("polled")
	sym.Assert(h.Opened() <= 2, "KNOWN:c16-poller-keeps-asking:a response that brings no progress ends the poll")
	sym.Assert(p.NextInstance == first+uint64(served), "advanced by what was served")
}
