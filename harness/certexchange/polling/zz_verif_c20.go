//go:build verif

package polling

import (
	"time"

	sym "github.com/filecoin-project/go-f3/internal/verifsym"
)

// symbolic predictor state under the representation invariant established by
// newPredictor and preserved by update (checked by VerifC20_PredictorInvariant).
func verifPredictor() (*predictor, predictor) {
	minI := sym.Int64("min")
	maxI := sym.Int64("max")
	interval := sym.Int64("interval")
	explore := sym.Int64("explore")
	backoff := sym.Int64("backoff")
	inc := sym.Bool("wasIncreasing")
	sym.Assume(sym.And(0 < minI, sym.And(minI <= interval, sym.And(interval <= maxI, maxI < 1<<47))))
	sym.Assume(sym.And(minI/100 <= explore, explore <= maxI/2))
	sym.Assume(sym.And(0 <= backoff, backoff <= 10*maxI))
	p := &predictor{
		minInterval: time.Duration(minI), maxInterval: time.Duration(maxI), interval: time.Duration(interval),
		exploreDistance: time.Duration(explore), backoff: time.Duration(backoff), wasIncreasing: inc,
	}
	return p, *p
}

// VerifC20_PredictorLaws: one-step laws of predictor.update from an arbitrary valid state.
func VerifC20_PredictorLaws() {
	p, pre := verifPredictor()
	progress := sym.Uint64("progress")
	sym.Assume(progress < 1<<32)
	next := p.update(progress)
	sym.Cover("updated")

	// invariant preserved, nothing negative, nothing overflowed
	sym.Assert(sym.And(p.minInterval <= p.interval, p.interval <= p.maxInterval), "interval-clamped")
	sym.Assert(sym.And(p.minInterval/100 <= p.exploreDistance, p.exploreDistance <= p.maxInterval/2), "explore-clamped")
	sym.Assert(sym.And(0 <= p.backoff, p.backoff <= 10*p.maxInterval), "backoff-bounded")
	sym.Assert(sym.And(next > 0, next <= 10*p.maxInterval), "wait-positive-bounded")
	sym.Assert(sym.And(p.minInterval == pre.minInterval, p.maxInterval == pre.maxInterval), "limits-unchanged")

	if pre.backoff == 0 {
		switch {
		case progress == 1:
			sym.Cover("settles")
			sym.Assert(next == pre.interval, "settles: wait is the interval")
			sym.Assert(sym.And(p.interval == pre.interval, sym.And(p.exploreDistance == pre.exploreDistance,
				sym.And(p.backoff == 0, p.wasIncreasing == pre.wasIncreasing))), "settles: state unchanged")
		case progress >= 2:
			sym.Cover("shortens")
			sym.Assert(p.interval <= pre.interval, "shortens: interval does not grow")
			sym.Assert(sym.Implies(sym.And(pre.interval > pre.minInterval, p.exploreDistance > 0), p.interval < pre.interval), "shortens: strictly when possible")
			sym.Assert(sym.And(next == p.interval, p.backoff == 0), "shortens: no backoff")
		default:
			sym.Cover("backs-off")
			sym.Assert(next >= pre.interval, "backs-off: wait not shorter than interval")
			sym.Assert(p.interval >= pre.interval, "backs-off: interval does not shrink")
			sym.Assert(p.backoff >= next, "backs-off: next wait no shorter")
		}
	} else {
		if progress > 0 {
			sym.Cover("leaves-backoff")
			sym.Assert(sym.And(p.backoff == 0, sym.And(p.interval == pre.interval, next == pre.interval)), "leaves-backoff: interval kept")
		} else {
			sym.Cover("stays-in-backoff")
			sym.Assert(sym.And(next == pre.backoff, sym.And(p.backoff >= pre.backoff, p.interval == pre.interval)), "backoff grows, interval kept")
		}
	}
}

// VerifC20_PredictorInit: newPredictor establishes the invariant assumed above.
func VerifC20_PredictorInit() {
	minI, def, maxI := sym.Int64("min"), sym.Int64("default"), sym.Int64("max")
	sym.Assume(sym.And(0 < minI, sym.And(minI <= def, sym.And(def <= maxI, maxI < 1<<47))))
	p := newPredictor(time.Duration(minI), time.Duration(def), time.Duration(maxI))
	sym.Cover("init")
	sym.Assert(sym.And(p.minInterval <= p.interval, p.interval <= p.maxInterval), "init-interval")
	sym.Assert(sym.And(p.minInterval/100 <= p.exploreDistance, p.exploreDistance <= p.maxInterval/2), "init-explore")
	sym.Assert(p.backoff == 0, "init-backoff")
}
