//go:build verif

package chainexchange

import (
	"context"
	"time"

	"github.com/filecoin-project/go-f3/gpbft"
	"github.com/filecoin-project/go-f3/internal/clock"
	"github.com/filecoin-project/go-f3/internal/encoding"
	sym "github.com/filecoin-project/go-f3/internal/verifsym"
	lru "github.com/hashicorp/golang-lru/v2"
	pubsub "github.com/libp2p/go-libp2p-pubsub"
	pb "github.com/libp2p/go-libp2p-pubsub/pb"
)

type verifListener struct {
	notified []*gpbft.ECChain
}

func (l *verifListener) NotifyChainDiscovered(_ context.Context, _ uint64, c *gpbft.ECChain) {
	l.notified = append(l.notified, c)
}

type verifCX struct {
	p    *PubSubChainExchange
	l    *verifListener
	clk  *clock.Mock
	prog gpbft.InstanceProgress
}

// newVerifCX builds the real exchange directly (never started: the pubsub
// topic and the two background goroutines are replaced by synchronous calls
// of the functions they run).
func newVerifCX(maxWanted, maxDiscovered int, lookahead uint64) *verifCX {
	v := &verifCX{l: &verifListener{}, clk: clock.NewMock()}
	v.clk.Set(time.Unix(1_700_000_000, 0))
	v.p = &PubSubChainExchange{
		options: &options{
			topicName: "verif", progress: func() gpbft.InstanceProgress { return v.prog },
			maxChainLength: gpbft.ChainMaxLen, maxInstanceLookahead: lookahead,
			maxDiscoveredChainsPerInstance: maxDiscovered, maxWantedChainsPerInstance: maxWanted,
			listener: v.l, maxTimestampAge: 10 * time.Second, clk: v.clk,
		},
		chainsWanted:         map[uint64]*lru.Cache[gpbft.ECChainKey, *chainPortion]{},
		chainsDiscovered:     map[uint64]*lru.Cache[gpbft.ECChainKey, *chainPortion]{},
		pendingCacheAsWanted: make(chan Message, 100),
		encoding:             encoding.NewCBOR[*Message](),
	}
	return v
}

// receive feeds an encoded broadcast through the real pubsub validator and, if
// accepted, into the discovered-chain cache (what the subscription loop does).
func (v *verifCX) receive(m *Message) pubsub.ValidationResult {
	ctx := context.Background()
	data, err := v.p.encoding.Encode(m)
	if err != nil {
		panic(err)
	}
	return v.receiveRaw(ctx, data)
}

func (v *verifCX) receiveRaw(ctx context.Context, data []byte) pubsub.ValidationResult {
	msg := &pubsub.Message{Message: &pb.Message{Data: data}}
	res := v.p.validatePubSubMessage(ctx, "peer", msg)
	if res == pubsub.ValidationAccept {
		v.p.cacheAsDiscoveredChain(ctx, msg.ValidatorData.(Message))
	}
	return res
}

// holds reports, without side effects, whether a lookup of key at instance
// would find the chain.
func (v *verifCX) holds(instance uint64, key gpbft.ECChainKey, want *gpbft.ECChain) bool {
	if w, ok := v.p.chainsWanted[instance]; ok {
		if portion, found := w.Peek(key); found && !portion.IsPlaceholder() {
			return portion.chain.Eq(want)
		}
	}
	if d, ok := v.p.chainsDiscovered[instance]; ok {
		if portion, found := d.Peek(key); found {
			return portion.chain.Eq(want)
		}
	}
	return false
}

// room reports whether the discovered cache of the instance can take every
// prefix of c that is not held yet without evicting anything (beyond that,
// which unsolicited entries survive is the LRU's business, not the property's).
func (v *verifCX) room(instance uint64, c *gpbft.ECChain, capacity int) bool {
	missing := 0
	for _, p := range c.AllPrefixes() {
		if !v.holds(instance, p.Key(), p) {
			missing++
		}
	}
	n := 0
	if d, ok := v.p.chainsDiscovered[instance]; ok {
		n = d.Len()
	}
	return n+missing <= capacity
}

// chain universe on base (10, tag 1)
func verifCXChain(k int) *gpbft.ECChain {
	switch k {
	case 0:
		return gpbft.VerifChain(10, 1) // [b]
	case 1:
		return gpbft.VerifChain(10, 1, 2) // [b,2]
	case 2:
		return gpbft.VerifChain(10, 1, 2, 3) // [b,2,3]
	case 3:
		return gpbft.VerifChain(10, 1, 5) // unsolicited forks
	case 4:
		return gpbft.VerifChain(10, 1, 6)
	default:
		return gpbft.VerifChain(10, 1, 7)
	}
}

// VerifC18_CacheSequences: every sequence (within the bound) of lookups, own
// broadcasts, admitted remote broadcasts (including more unsolicited chains
// than the discovered-chain capacity) and prunes on the real exchange and the
// real LRU caches.  (a) a lookup only returns the chain of the requested key;
// (b) while the number of distinct keys stays within both capacities, every
// admitted chain and each of its prefixes is retrievable; (d) a key the node
// asked for (or broadcast itself) and received stays retrievable while no more
// keys than the wanted capacity were asked for — whatever unsolicited traffic
// arrives; (e) a prune removes exactly the instances below the given one.
func VerifC18_CacheSequences() {
	ctx := context.Background()
	const inst = uint64(5)
	maxWanted, maxDiscovered := 4, 2+sym.Choice("discovered-capacity-minus-2", 2)
	if sym.Tier() == 1 {
		maxWanted, maxDiscovered = 3+sym.Choice("wanted-capacity-minus-3", 2), 1+sym.Choice("discovered-capacity-minus-1", 3)
	}
	v := newVerifCX(maxWanted, maxDiscovered, 2)
	v.prog = gpbft.InstanceProgress{Instant: gpbft.Instant{ID: inst, Round: 0, Phase: gpbft.QUALITY_PHASE}, Input: verifCXChain(2)}
	now := v.clk.Now().UnixMilli()

	keyOf := func(c *gpbft.ECChain) gpbft.ECChainKey { return c.Key() }
	wanted := map[gpbft.ECChainKey]bool{}   // keys asked for / broadcast by the node
	distinct := map[gpbft.ECChainKey]bool{} // all keys that ever entered a cache
	admitted := map[gpbft.ECChainKey]*gpbft.ECChain{}
	owed := map[gpbft.ECChainKey]bool{} // wanted and received: must stay retrievable
	wantedOverflow, distinctOverflow := false, false
	note := func() {
		if len(wanted) > maxWanted {
			wantedOverflow = true
		}
		if len(distinct) > min(maxWanted, maxDiscovered) {
			distinctOverflow = true
		}
	}
	steps := 4 // (thorough tier: more capacity combinations, same length; 5 operations did not finish in an hour)
	for st := 0; st < steps; st++ {
		switch op := sym.Choice("op", 10); {
		case op < 3: // lookup of [b,2], [b,2,3] or the fork [b,5]
			c := verifCXChain([]int{1, 2, 3}[op])
			k := keyOf(c)
			got, found := v.p.GetChainByInstance(ctx, inst, k)
			if found {
				sym.Cover("lookup-found")
				sym.Assert(got != nil && got.Key() == k && got.Eq(c), "a lookup returns only the chain of the requested key")
				sym.Assert(admitted[k] != nil, "a lookup returns only chains that were admitted")
			} else {
				sym.Cover("lookup-missed")
				sym.Assert(!(owed[k] && !wantedOverflow), "KNOWN:c18-received-wanted-chain-filed-as-unsolicited:a chain asked for and received is retained within the wanted capacity")
				sym.Assert(!(admitted[k] != nil && !distinctOverflow), "an admitted chain and its prefixes are retrievable within capacity")
			}
			wanted[k], distinct[k] = true, true
			if found {
				owed[k] = true
			}
			note()
		case op == 3: // own broadcast of [b,2,3] (what the broadcast loop does with it)
			c := verifCXChain(2)
			before := len(v.l.notified)
			v.p.cacheAsWantedChain(ctx, Message{Instance: inst, Chain: c, Timestamp: now})
			sym.Cover("own-broadcast")
			for _, p := range c.AllPrefixes() {
				k := keyOf(p)
				if !owed[k] || wantedOverflow {
					// newly available to the node: the listener hears about it
					_ = before
				}
				wanted[k], distinct[k], owed[k] = true, true, true
				admitted[k] = p
			}
			note()
		case op < 9: // remote broadcast of [b,2,3], [b,2] or one of three forks
			c := verifCXChain([]int{2, 1, 3, 4, 5}[op-4])
			room := v.room(inst, c, maxDiscovered)
			res := v.receive(&Message{Instance: inst, Chain: c, Timestamp: now})
			sym.Assert(res == pubsub.ValidationAccept, "a well-formed timely broadcast for the current instance on its base is admitted")
			if op >= 6 {
				sym.Cover("unsolicited")
			} else {
				sym.Cover("remote")
			}
			for _, p := range c.AllPrefixes() {
				k := keyOf(p)
				distinct[k] = true
				admitted[k] = p
				if wanted[k] {
					owed[k] = true
				}
				// right after admission the chain and every prefix of it are held
				// (checked without touching recency or leaving placeholders)
				if room {
					sym.Assert(v.holds(inst, k, p), "KNOWN:c18-received-wanted-chain-filed-as-unsolicited:right after admission the chain and every prefix are retrievable")
				}
			}
			note()
		default: // prune everything below the next instance
			sym.Cover("prune")
			sym.Assert(v.p.RemoveChainsByInstance(ctx, inst+1) == nil, "prune succeeds")
			for i := 0; i < 6; i++ {
				for _, p := range verifCXChain(i).AllPrefixes() {
					_, found := v.p.GetChainByInstance(ctx, inst, p.Key())
					sym.Assert(!found, "after a prune nothing below the given instance is retrievable")
				}
			}
			// (the probing lookups left placeholders only)
			wanted, distinct = map[gpbft.ECChainKey]bool{}, map[gpbft.ECChainKey]bool{}
			admitted, owed = map[gpbft.ECChainKey]*gpbft.ECChain{}, map[gpbft.ECChainKey]bool{}
			wantedOverflow, distinctOverflow = true, true // placeholders of the probe occupy the wanted cache
		}
	}
}

// VerifC18_PruneExact: a prune at instance j removes the chains of every
// instance below j and of no other.
func VerifC18_PruneExact() {
	ctx := context.Background()
	v := newVerifCX(8, 8, 4)
	v.prog = gpbft.InstanceProgress{Instant: gpbft.Instant{ID: 5}}
	now := v.clk.Now().UnixMilli()
	c := verifCXChain(2)
	for i := uint64(5); i <= 8; i++ {
		if i%2 == 0 {
			v.p.cacheAsWantedChain(ctx, Message{Instance: i, Chain: c, Timestamp: now})
		} else {
			sym.Assert(v.receive(&Message{Instance: i, Chain: c, Timestamp: now}) == pubsub.ValidationAccept, "admitted")
		}
	}
	j := sym.Uint64("prune-below")
	sym.Assert(v.p.RemoveChainsByInstance(ctx, j) == nil, "prune succeeds")
	sym.Cover("pruned")
	for i := uint64(5); i <= 8; i++ {
		for _, p := range c.AllPrefixes() {
			_, found := v.p.GetChainByInstance(ctx, i, p.Key())
			sym.Assert(found == (i >= j), "prune removes exactly the instances below the given one")
		}
	}
}

// VerifC18_Admission: the pubsub validator admits a broadcast exactly when it
// decodes, is non-empty and well-formed, is for the current or an allowed
// future instance, is within the timestamp window and (for the current
// instance with a known input) starts at the input's base.  Instance numbers,
// progress, timestamps and the clock are arbitrary.
func VerifC18_Admission() {
	lookahead := uint64(sym.Uint8("lookahead"))
	v := newVerifCX(4, 4, lookahead)
	cur := sym.Uint64("current-instance")
	sym.Assume(cur < 1<<62)
	inputKnown := sym.Bool("input-known")
	v.prog = gpbft.InstanceProgress{Instant: gpbft.Instant{ID: cur}}
	if inputKnown {
		v.prog.Input = verifCXChain(2)
	}
	nowMs := sym.Int64("now-ms")
	sym.Assume(sym.And(nowMs >= 1_000_000, nowMs < 1<<41))
	v.clk.Set(time.UnixMilli(nowMs))

	m := &Message{Instance: sym.Uint64("instance"), Timestamp: sym.Int64("timestamp-ms")}
	sym.Assume(sym.And(m.Timestamp > -(1 << 42), m.Timestamp < 1<<42))
	wellFormed, empty, baseOK := true, false, true
	switch sym.Choice("chain", 5) {
	case 0:
		m.Chain = verifCXChain(2)
	case 1:
		m.Chain = verifCXChain(0)
	case 2: // another base
		m.Chain = gpbft.VerifChain(10, 9, 2)
		baseOK = false
	case 3: // empty
		m.Chain = &gpbft.ECChain{}
		empty = true
	default: // malformed: epochs not increasing
		m.Chain = verifCXChain(2)
		m.Chain.TipSets[2].Epoch = m.Chain.TipSets[1].Epoch
		wellFormed = false
	}
	var res pubsub.ValidationResult
	undecodable := sym.Bool("undecodable")
	if undecodable {
		res = v.receiveRaw(context.Background(), []byte{0x82, 0x00})
	} else {
		res = v.receive(m)
	}
	sym.Cover("validated")
	inWindow := sym.And(m.Instance >= cur, m.Instance-cur <= lookahead)
	timely := sym.And(m.Timestamp <= nowMs, m.Timestamp >= nowMs-10_000)
	baseApplies := sym.And(inputKnown, m.Instance == cur)
	want := !undecodable && !empty && wellFormed && inWindow && timely && (!baseApplies || baseOK)
	if want {
		sym.Cover("admitted")
	}
	sym.Assert((res == pubsub.ValidationAccept) == want, "admitted exactly when decodable, non-empty, well-formed, in the instance and timestamp windows and on the current base")
	if res == pubsub.ValidationAccept {
		got, found := v.p.GetChainByInstance(context.Background(), m.Instance, m.Chain.Key())
		sym.Assert(found && got.Eq(m.Chain), "an admitted chain is retrievable by key for its instance")
	} else {
		_, found := v.p.GetChainByInstance(context.Background(), m.Instance, m.Chain.Key())
		sym.Assert(!found, "a broadcast that is not admitted is not retrievable")
	}
}

// VerifC18_Readmission: a chain that is admitted again (rebroadcasts are the
// norm) is completed again: whenever the discovered cache has room for the
// prefixes that were lost meanwhile (evicted by unsolicited chains, or
// promoted by a lookup and displaced), all of them are retrievable right
// after the re-admission.
func VerifC18_Readmission() {
	ctx := context.Background()
	const inst = uint64(5)
	maxWanted, maxDiscovered := 2, 3+sym.Choice("discovered-capacity-minus-3", 2)
	v := newVerifCX(maxWanted, maxDiscovered, 2)
	v.prog = gpbft.InstanceProgress{Instant: gpbft.Instant{ID: inst}, Input: verifCXChain(2)}
	now := v.clk.Now().UnixMilli()
	long := verifCXChain(2)
	admit := func(c *gpbft.ECChain) {
		room := v.room(inst, c, maxDiscovered)
		sym.Assert(v.receive(&Message{Instance: inst, Chain: c, Timestamp: now}) == pubsub.ValidationAccept, "admitted")
		if room {
			sym.Cover("room")
			for _, p := range c.AllPrefixes() {
				sym.Assert(v.holds(inst, p.Key(), p), "KNOWN:c18-received-wanted-chain-filed-as-unsolicited:right after (re-)admission the chain and every prefix are retrievable")
			}
		} else {
			sym.Cover("no-room")
		}
	}
	if sym.Bool("short-chain-first") {
		admit(verifCXChain(1))
	}
	admit(long)
	for i := 0; i < 4; i++ {
		switch sym.Choice("between", 4) {
		case 1: // unsolicited fork
			admit(verifCXChain(3 + i%3))
		case 2: // lookup of a prefix of the long chain (promotes it to the wanted cache)
			v.p.GetChainByInstance(ctx, inst, verifCXChain(i%3).Key())
		case 3: // lookup of a key never seen (placeholder in the wanted cache)
			v.p.GetChainByInstance(ctx, inst, gpbft.VerifChain(10, 1, byte(40+i)).Key())
		}
	}
	sym.Cover("readmitted")
	admit(long)
}
