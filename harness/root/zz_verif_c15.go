//go:build verif

package f3

import (
	"bytes"
	"context"
	"errors"
	"time"

	"github.com/filecoin-project/go-f3/certchain"
	"github.com/filecoin-project/go-f3/certs"
	"github.com/filecoin-project/go-f3/certstore"
	"github.com/filecoin-project/go-f3/ec"
	"github.com/filecoin-project/go-f3/gpbft"
	"github.com/filecoin-project/go-f3/internal/clock"
	sym "github.com/filecoin-project/go-f3/internal/verifsym"
	"github.com/filecoin-project/go-f3/manifest"
)

// ---- a model EC backend: a block tree with null rounds and one fork ----
//
//	T0 <- T1 <- T2 <- T3 <- T4 <- T5        (main chain)
//	       \- F2 <- F3                       (fork off T1)
//
// Epochs grow by a symbolic gap of 1..3 per block (null rounds), timestamps
// follow the epochs (one EC period per epoch), the head is any tipset, every
// tipset has its own power table and beacon.

const (
	verifECPeriod   = 30 * time.Second
	verifMainLen    = 6
	verifForkParent = 1
)

type verifTS struct {
	idx    int
	epoch  int64
	key    gpbft.TipSetKey
	parent int
	ts     time.Time
	beacon []byte
}

func (t *verifTS) Key() gpbft.TipSetKey { return t.key }
func (t *verifTS) Beacon() []byte       { return t.beacon }
func (t *verifTS) Epoch() int64         { return t.epoch }
func (t *verifTS) Timestamp() time.Time { return t.ts }
func (t *verifTS) String() string       { return "verifTS" }

type verifEC struct {
	ts   []*verifTS
	head int
	// every EC query is recorded: the committee must not depend on non-final data
	asked []int
}

var _ ec.Backend = (*verifEC)(nil)

func verifTableAt(idx int) gpbft.PowerEntries { return certstore.VerifTable(idx) }

func newVerifEC() *verifEC {
	e := &verifEC{}
	genesis := time.Unix(1_600_000_000, 0)
	add := func(parent int, tag byte) {
		epoch := int64(100)
		if parent >= 0 {
			gap := int64(sym.Uint8("epoch-gap"))
			sym.Assume(sym.And(gap >= 1, gap <= 3))
			epoch = e.ts[parent].epoch + gap
		}
		e.ts = append(e.ts, &verifTS{
			idx: len(e.ts), epoch: epoch, key: gpbft.TipSetKey{tag, tag, 0x7e}, parent: parent,
			ts: genesis.Add(time.Duration(epoch) * verifECPeriod), beacon: []byte{0xbe, tag},
		})
	}
	for i := 0; i < verifMainLen; i++ {
		add(i-1, byte(0x10+i))
	}
	add(verifForkParent, 0x52) // F2 = index 6
	add(verifMainLen, 0x53)    // F3 = index 7
	return e
}

func (e *verifEC) find(key gpbft.TipSetKey) *verifTS {
	for _, t := range e.ts {
		if bytes.Equal(t.key, key) {
			return t
		}
	}
	return nil
}

func (e *verifEC) GetTipsetByEpoch(_ context.Context, epoch int64) (ec.TipSet, error) {
	for i := e.head; i >= 0; i = e.ts[i].parent {
		if e.ts[i].epoch <= epoch {
			e.asked = append(e.asked, i)
			return e.ts[i], nil
		}
	}
	return nil, errors.New("verif ec: no tipset at or before epoch")
}

func (e *verifEC) GetTipset(_ context.Context, key gpbft.TipSetKey) (ec.TipSet, error) {
	if t := e.find(key); t != nil {
		e.asked = append(e.asked, t.idx)
		return t, nil
	}
	return nil, errors.New("verif ec: unknown tipset")
}

func (e *verifEC) GetHead(context.Context) (ec.TipSet, error) { return e.ts[e.head], nil }

func (e *verifEC) GetParent(_ context.Context, t ec.TipSet) (ec.TipSet, error) {
	p := t.(*verifTS).parent
	if p < 0 {
		return nil, errors.New("verif ec: genesis has no parent")
	}
	return e.ts[p], nil
}

func (e *verifEC) GetPowerTable(_ context.Context, key gpbft.TipSetKey) (gpbft.PowerEntries, error) {
	if t := e.find(key); t != nil {
		e.asked = append(e.asked, t.idx)
		return verifTableAt(t.idx), nil
	}
	return nil, errors.New("verif ec: unknown tipset")
}

func (e *verifEC) Finalize(context.Context, gpbft.TipSetKey) error { return nil }

// ancestors of tipset i (inclusive), oldest first.
func (e *verifEC) lineage(i int) []int {
	var l []int
	for ; i >= 0; i = e.ts[i].parent {
		l = append([]int{i}, l...)
	}
	return l
}

func (e *verifEC) gtip(i int) *gpbft.TipSet {
	c, err := certs.MakePowerTableCID(verifTableAt(i))
	if err != nil {
		panic(err)
	}
	return &gpbft.TipSet{Epoch: e.ts[i].epoch, Key: e.ts[i].key, PowerTable: c}
}

// ---- the node's consensus inputs over the model EC and a real store ----

type verifInputs struct {
	e        *verifEC
	m        manifest.Manifest
	store    *certstore.Store
	in       gpbftInputs
	clk      *clock.Mock
	initial  uint64
	lookback uint64
	heads    []int // heads[j] = main-chain index finalized by certificate initial+j
	certs    []*certs.FinalityCertificate
}

// committeeIdx: the tipset whose power table and beacon make up the committee
// of `instance` by the rule of the property: the bootstrap tipset (T0) during
// the look-back window, afterwards the head finalized `lookback` instances earlier.
func (v *verifInputs) committeeIdx(instance uint64) int {
	if instance < v.initial+v.lookback {
		return 0
	}
	return v.heads[instance-v.lookback-v.initial]
}

// newVerifInputs builds k certificates on the main chain (certificate j
// finalizes up to main-chain index heads[j], non-decreasing) whose power-table
// deltas follow the node's committee rule, a real store holding them, and the
// node's real gpbftInputs over them.
func newVerifInputs(k int) *verifInputs {
	v := &verifInputs{e: newVerifEC()}
	v.initial = uint64(3 * sym.Choice("initial-instance-third", 2))
	v.lookback = uint64(1 + sym.Choice("committee-lookback-minus-1", 3))
	m := manifest.LocalDevnetManifest()
	m.InitialInstance = v.initial
	m.CommitteeLookback = v.lookback
	m.EC.Finality = 2
	m.BootstrapEpoch = 102 // bootstrap tipset: epoch 100 = T0
	m.EC.Period = verifECPeriod
	m.NetworkName = "verif"
	v.m = m
	prev := 0
	for j := 0; j < k; j++ {
		h := prev + sym.Choice("finalized-advance", 3)
		if h >= verifMainLen {
			sym.Assume(false)
		}
		v.heads = append(v.heads, h)
		prev = h
	}
	table := func(instance uint64) gpbft.PowerEntries {
		if instance < v.initial+v.lookback || instance-v.lookback-v.initial >= uint64(len(v.heads)) {
			if instance < v.initial+v.lookback {
				return verifTableAt(0)
			}
			return nil
		}
		return verifTableAt(v.committeeIdx(instance))
	}
	prev = 0
	for j := 0; j < k; j++ {
		inst := v.initial + uint64(j)
		var tips []*gpbft.TipSet
		for i := prev; i <= v.heads[j]; i++ {
			tips = append(tips, v.e.gtip(i))
		}
		cur, next := table(inst), table(inst+1)
		if next == nil {
			// beyond what the look-back determines: committee unchanged (never used below)
			next = cur
		}
		nc, err := certs.MakePowerTableCID(next)
		if err != nil {
			panic(err)
		}
		v.certs = append(v.certs, &certs.FinalityCertificate{
			GPBFTInstance: inst, ECChain: &gpbft.ECChain{TipSets: tips},
			SupplementalData: gpbft.SupplementalData{PowerTable: nc},
			Signature:        []byte{1}, PowerTableDelta: certs.MakePowerTableDiff(cur, next),
		})
		prev = v.heads[j]
	}
	v.store = certstore.VerifNewStoreWith(v.initial, verifTableAt(0), v.certs...)
	v.clk = clock.NewMock()
	v.in = newInputs(m, v.store, v.e, gpbft.VerifCrypto{}, v.clk)
	return v
}

// determined: the committee of `instance` is determined by the k certificates held.
func (v *verifInputs) determined(instance uint64) bool {
	return instance < v.initial+v.lookback || instance-v.lookback-v.initial < uint64(len(v.heads))
}

// VerifC15_Committee: the committee of an instance is the table and beacon
// at the bootstrap tipset during the look-back window and afterwards at the
// head finalized `lookback` instances earlier — whatever the EC head is (on
// the main chain beyond the finalized head, or on the fork) and identical for
// two nodes with different heads and clocks.
func VerifC15_Committee() {
	ctx := context.Background()
	k := sym.Choice("certificates", 3+sym.Tier())
	v := newVerifInputs(k)
	last := 0
	if k > 0 {
		last = v.heads[k-1]
	}
	// the EC head descends from the latest finalized tipset (ec.Backend contract)
	v.e.head = last + sym.Choice("head-beyond-finalized", verifMainLen)
	sym.Assume(v.e.head < verifMainLen)
	instance := v.initial + uint64(sym.Choice("instance-offset", 6))
	sym.Assume(instance <= v.initial+uint64(k)+v.lookback)
	c, err := v.in.GetCommittee(ctx, instance)
	if !v.determined(instance) || instance > v.initial+uint64(k) {
		// not derivable yet from what the node holds, or beyond the next instance
		if err != nil {
			sym.Cover("not-derivable")
			return
		}
	}
	sym.Assert(err == nil, "committee of a determined instance is derivable")
	if err != nil {
		return
	}
	sym.Cover("derived")
	want := v.committeeIdx(instance)
	if want == 0 {
		sym.Cover("bootstrap-window")
	} else {
		sym.Cover("by-lookback")
	}
	sym.Assert(c.PowerTable.Entries.Equal(verifTableAt(want)), "committee table is the table at the tipset finalized look-back instances earlier (initial table in the window)")
	sym.Assert(bytes.Equal(c.Beacon, v.e.ts[want].beacon), "committee beacon is that of the same finalized tipset")
	// a second node: same certificates, another head (possibly ahead) and clock
	v2head := last + sym.Choice("other-head-beyond-finalized", verifMainLen)
	sym.Assume(v2head < verifMainLen)
	v.e.head = v2head
	v.clk.Add(time.Duration(sym.Uint16("clock-skew-seconds")) * time.Second)
	c2, err2 := v.in.GetCommittee(ctx, instance)
	sym.Assert(err2 == nil && c2.PowerTable.Entries.Equal(c.PowerTable.Entries) && bytes.Equal(c2.Beacon, c.Beacon), "nodes holding the same certificates derive identical committees")
}

// VerifC19_CertChainCommittee: the certificate-chain generator derives the
// committee of every instance by the node's rule: same tipset, so same table
// and beacon as the node's GetCommittee over the same EC backend and
// certificates.
func VerifC19_CertChainCommittee() {
	ctx := context.Background()
	k := 1 + sym.Choice("certificates-minus-1", 4)
	v := newVerifInputs(k)
	v.e.head = verifMainLen - 1
	cc := certchain.VerifNewWithCertificates(v.e, v.m, gpbft.VerifCrypto{}, v.certs)
	instance := v.initial + uint64(sym.Choice("instance-offset", 6))
	sym.Assume(instance <= v.initial+uint64(k) && v.determined(instance))
	node, err := v.in.GetCommittee(ctx, instance)
	sym.Assert(err == nil, "node derives the committee")
	if err != nil {
		return
	}
	gen, gerr := cc.GetCommittee(ctx, instance)
	sym.Cover("compared")
	if instance >= v.initial+v.lookback {
		sym.Cover("beyond-window")
	}
	sym.Assert(gerr == nil, "generator derives the committee of an instance the node can derive")
	if gerr != nil {
		return
	}
	sym.Assert(gen.PowerTable.Entries.Equal(node.PowerTable.Entries), "generator and node use the same power table")
	sym.Assert(bytes.Equal(gen.Beacon, node.Beacon), "generator and node use the same beacon")
}

// VerifC15_Proposal: the chain proposed for the next instance, for every head
// (on the main chain before / at / after the base, or on the fork), every
// head look-back, proposal length and clock position, against a reference
// computed from the block tree: starts at the finalized head (bootstrap
// tipset for the first instance), continues only along the head's ancestry,
// collapses to the base when the head does not descend from it, drops the
// head look-back and a too-fresh last tipset, respects the length limit;
// every tipset carries the CID of EC's table at that tipset; the supplemental
// data commits to the next instance's committee.
func VerifC15_Proposal() {
	ctx := context.Background()
	k := sym.Choice("certificates", 3)
	v := newVerifInputs(k)
	hl := sym.Choice("head-lookback", 2+sym.Tier())
	cpl := 1 + sym.Choice("chain-proposed-length-minus-1", 2+2*sym.Tier())
	if cpl == 2+2*sym.Tier() {
		cpl = 1000 // beyond the protocol maximum
	}
	v.in.manifest.EC.HeadLookback = hl
	v.in.manifest.Gpbft.ChainProposedLength = cpl
	v.e.head = sym.Choice("head", len(v.e.ts))
	nowOff := sym.Int64("now-offset-ns")
	lo, hi := int64(99)*int64(verifECPeriod), int64(125)*int64(verifECPeriod)
	sym.Assume(sym.And(nowOff >= lo, nowOff <= hi))
	now := time.Unix(1_600_000_000, 0).Add(time.Duration(nowOff))
	v.clk.Set(now)
	// the instance the node is in: normally the next one, but its store may already
	// be ahead (certificates fetched from peers while it was still working)
	maxBehind := k
	if sym.Tier() == 0 {
		maxBehind = min(k, 1)
	}
	behind := sym.Choice("store-ahead-by", maxBehind+1)
	instance := v.initial + uint64(k-behind)

	supp, chain, err := v.in.GetProposal(ctx, instance)
	if !v.determined(instance + 1) {
		sym.Cover("next-committee-unknown")
		sym.Assert(err != nil, "no proposal without a derivable next committee to commit to")
		return
	}
	sym.Assert(err == nil, "proposal is derivable")
	if err != nil {
		return
	}
	sym.Cover("proposed")
	baseIdx := 0
	if k-behind > 0 {
		baseIdx = v.heads[k-behind-1]
	}
	if behind > 0 {
		sym.Cover("store-ahead")
	}
	var suffix []int
	descends := false
	for _, i := range v.e.lineage(v.e.head) {
		if descends {
			suffix = append(suffix, i)
		}
		if i == baseIdx {
			descends = true
		}
	}
	if !descends {
		suffix = nil
		sym.Cover("head-not-descending-from-base")
	} else if len(suffix) > 0 {
		sym.Cover("head-beyond-base")
	}
	if hl > 0 {
		suffix = suffix[:max(0, len(suffix)-hl)]
	}
	if n := len(suffix); n > 0 && now.Sub(v.e.ts[suffix[n-1]].ts) < verifECPeriod {
		sym.Cover("fresh-head-dropped")
		suffix = suffix[:n-1]
	}
	if limit := min(gpbft.ChainMaxLen, cpl) - 1; len(suffix) > limit {
		sym.Cover("length-limited")
		suffix = suffix[:limit]
	}
	sym.Assert(chain.Validate() == nil, "proposal is well-formed")
	sym.Assert(chain.Len() == 1+len(suffix), "proposal has the reference length")
	sym.Assert(chain.Base().Equal(v.e.gtip(baseIdx)), "proposal starts at the finalized head (bootstrap tipset for the first instance) with EC's table CID")
	if chain.Len() == 1+len(suffix) {
		for j, i := range suffix {
			sym.Assert(chain.TipSets[j+1].Equal(v.e.gtip(i)), "proposal continues along the head's ancestry, each tipset with EC's table CID")
		}
	}
	nc, cerr := certs.MakePowerTableCID(verifTableAt(v.committeeIdx(instance + 1)))
	sym.Assert(cerr == nil && supp.PowerTable == nc, "supplemental data commits to the next instance's committee")
}
