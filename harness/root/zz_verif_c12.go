//go:build verif

package f3

import (
	"github.com/filecoin-project/go-f3/gpbft"
	sym "github.com/filecoin-project/go-f3/internal/verifsym"
	"github.com/libp2p/go-libp2p/core/peer"
)

type verifPublished struct {
	instance uint64
	sender   gpbft.ActorID
	round    uint64
	phase    gpbft.Phase
	sig      [2]byte
}

func verifSymMessage(tag string, senders int) *gpbft.GMessage {
	s := sym.Bytes(tag+"-sig", 2)
	sender := gpbft.ActorID(1 + sym.Choice(tag+"-sender", senders))
	return &gpbft.GMessage{
		Sender: sender,
		Vote: gpbft.Payload{
			Instance: sym.Uint64(tag + "-instance"),
			Round:    sym.Uint64(tag + "-round"),
			Phase:    gpbft.Phase(sym.Uint8(tag + "-phase")),
		},
		Signature: []byte{s[0], s[1]},
	}
}

// VerifC12_FilterSequences: any sequence of broadcast requests (arbitrary
// instance/round/phase/signature, two local identities), messages received
// from other nodes (never carrying a local identity: the property's
// assumption) and process restarts (a fresh filter re-armed by replaying the
// accepted messages in order, as the runner does from its WAL): whatever the
// filter lets through never conflicts with anything let through before.
func VerifC12_FilterSequences() {
	const local = peer.ID("local")
	ef := newEquivocationFilter(local)
	var published []verifPublished // = the write-ahead log
	steps := 3 + sym.Tier()
	for st := 0; st < steps; st++ {
		switch sym.Choice("step", 3) {
		case 0: // broadcast (or rebroadcast) request
			m := verifSymMessage("b", 2)
			if ef.ProcessBroadcast(m) {
				sym.Cover("broadcast-accepted")
				for _, p := range published {
					sym.Assert(m.Vote.Instance >= p.instance, "never broadcasts for an instance older than one already broadcast for")
					same := p.instance == m.Vote.Instance && p.sender == m.Sender && p.round == m.Vote.Round && p.phase == m.Vote.Phase
					sym.Assert(sym.Implies(same, p.sig[0] == m.Signature[0] && p.sig[1] == m.Signature[1]),
						"never two differently signed messages for one instance, sender, round and step")
				}
				published = append(published, verifPublished{m.Vote.Instance, m.Sender, m.Vote.Round, m.Vote.Phase, [2]byte{m.Signature[0], m.Signature[1]}})
			} else {
				sym.Cover("broadcast-refused")
			}
		case 1: // message from another node, for another identity
			m := verifSymMessage("r", 1)
			m.Sender = 7
			ef.ProcessReceive(peer.ID("remote"), m)
			sym.Cover("received")
		case 2: // restart: re-arm a fresh filter from the log
			sym.Cover("restart")
			ef = newEquivocationFilter(local)
			for _, p := range published {
				ef.ProcessBroadcast(&gpbft.GMessage{Sender: p.sender,
					Vote:      gpbft.Payload{Instance: p.instance, Round: p.round, Phase: p.phase},
					Signature: []byte{p.sig[0], p.sig[1]}})
			}
		}
	}
}

// VerifC12_FilterCompleteness: the filter is not needlessly strict — a first
// message for a slot of the current or a newer instance is let through, and
// an identical repeat (rebroadcast) is let through again.
func VerifC12_FilterCompleteness() {
	ef := newEquivocationFilter(peer.ID("local"))
	m1 := verifSymMessage("m1", 2)
	sym.Assert(ef.ProcessBroadcast(m1), "first message is let through")
	sym.Assert(ef.ProcessBroadcast(m1), "identical rebroadcast is let through")
	m2 := verifSymMessage("m2", 2)
	sym.Assume(m2.Vote.Instance >= m1.Vote.Instance)
	fresh := m2.Vote.Instance > m1.Vote.Instance || m2.Sender != m1.Sender || m2.Vote.Round != m1.Vote.Round || m2.Vote.Phase != m1.Vote.Phase
	sym.Cover("second")
	if fresh {
		sym.Assert(ef.ProcessBroadcast(m2), "message for a fresh slot is let through")
	}
}
