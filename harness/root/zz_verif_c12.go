//go:build verif

package f3

import (
	"context"
	"os"

	"github.com/filecoin-project/go-f3/certstore"
	"github.com/filecoin-project/go-f3/gpbft"
	"github.com/filecoin-project/go-f3/internal/clock"
	"github.com/filecoin-project/go-f3/internal/writeaheadlog"
	"github.com/filecoin-project/go-f3/manifest"
	sym "github.com/filecoin-project/go-f3/internal/verifsym"
	pubsub "github.com/libp2p/go-libp2p-pubsub"
	"github.com/libp2p/go-libp2p/core/peer"
)

type verifPublished struct {
	instance uint64
	sender   gpbft.ActorID
	round    uint64
	phase    gpbft.Phase
	sig      [2]byte
}

func verifSymMessage(tag string, senders int) *gpbft.GMessage {
	s := sym.Bytes(tag+"-sig", 2)
	sender := gpbft.ActorID(1 + sym.Choice(tag+"-sender", senders))
	return &gpbft.GMessage{
		Sender: sender,
		Vote: gpbft.Payload{
			Instance: sym.Uint64(tag + "-instance"),
			Round:    sym.Uint64(tag + "-round"),
			Phase:    gpbft.Phase(sym.Uint8(tag + "-phase")),
			SupplementalData: gpbft.SupplementalData{PowerTable: gpbft.MakeCid([]byte("verif-pt"))},
		},
		Signature: []byte{s[0], s[1]},
	}
}

// VerifC12_FilterSequences: any sequence of broadcast requests (arbitrary
// instance/round/phase/signature, two local identities), messages received
// from other nodes (never carrying a local identity: the property's
// assumption) and process restarts (a fresh filter re-armed by replaying the
// accepted messages in order, as the runner does from its WAL): whatever the
// filter lets through never conflicts with anything let through before.
func VerifC12_FilterSequences() {
	const local = peer.ID("local")
	ef := newEquivocationFilter(local)
	var published []verifPublished // = the write-ahead log
	steps := 3 + sym.Tier()
	for st := 0; st < steps; st++ {
		switch sym.Choice("step", 3) {
		case 0: // broadcast (or rebroadcast) request
			m := verifSymMessage("b", 2)
			if ef.ProcessBroadcast(m) {
				sym.Cover("broadcast-accepted")
				for _, p := range published {
					sym.Assert(m.Vote.Instance >= p.instance, "never broadcasts for an instance older than one already broadcast for")
					same := p.instance == m.Vote.Instance && p.sender == m.Sender && p.round == m.Vote.Round && p.phase == m.Vote.Phase
					sym.Assert(sym.Implies(same, p.sig[0] == m.Signature[0] && p.sig[1] == m.Signature[1]),
						"never two differently signed messages for one instance, sender, round and step")
				}
				published = append(published, verifPublished{m.Vote.Instance, m.Sender, m.Vote.Round, m.Vote.Phase, [2]byte{m.Signature[0], m.Signature[1]}})
			} else {
				sym.Cover("broadcast-refused")
			}
		case 1: // message from another node, for another identity
			m := verifSymMessage("r", 1)
			m.Sender = 7
			ef.ProcessReceive(peer.ID("remote"), m)
			sym.Cover("received")
		case 2: // restart: re-arm a fresh filter from the log
			sym.Cover("restart")
			ef = newEquivocationFilter(local)
			for _, p := range published {
				ef.ProcessBroadcast(&gpbft.GMessage{Sender: p.sender,
					Vote:      gpbft.Payload{Instance: p.instance, Round: p.round, Phase: p.phase},
					Signature: []byte{p.sig[0], p.sig[1]}})
			}
		}
	}
}

// VerifC12_FilterCompleteness: the filter is not needlessly strict — a first
// message for a slot of the current or a newer instance is let through, and
// an identical repeat (rebroadcast) is let through again.
func VerifC12_FilterCompleteness() {
	ef := newEquivocationFilter(peer.ID("local"))
	m1 := verifSymMessage("m1", 2)
	sym.Assert(ef.ProcessBroadcast(m1), "first message is let through")
	sym.Assert(ef.ProcessBroadcast(m1), "identical rebroadcast is let through")
	m2 := verifSymMessage("m2", 2)
	sym.Assume(m2.Vote.Instance >= m1.Vote.Instance)
	fresh := m2.Vote.Instance > m1.Vote.Instance || m2.Sender != m1.Sender || m2.Vote.Round != m1.Vote.Round || m2.Vote.Phase != m1.Vote.Phase
	sym.Cover("second")
	if fresh {
		sym.Assert(ef.ProcessBroadcast(m2), "message for a fresh slot is let through")
	}
}

// verifRunner builds a real gpbftRunner through the real constructor (so the
// real WAL replay re-arms the equivocation filter), over a real WAL in dir.
func verifRunner(dir string) (*gpbftRunner, *writeaheadlog.WriteAheadLog[walEntry, *walEntry]) {
	wal, err := writeaheadlog.Open[walEntry](dir)
	if err != nil {
		panic(err)
	}
	cs, _, _, _ := certstore.VerifNewStore(0, 0)
	ctx, _ := clock.WithMockClock(context.Background())
	mf := manifest.LocalDevnetManifest()
	mf.PubSub.CompressionEnabled = false // zstd is outside every claim
	mf.PubSub.ChainCompressionEnabled = false
	r, err := newRunner(ctx, cs, nil, new(pubsub.PubSub), gpbft.VerifCrypto{}, make(chan *gpbft.MessageBuilder, 8), mf, wal, peer.ID("local"))
	if err != nil {
		panic(err)
	}
	return r, wal
}

func verifWALHas(dir string, m *gpbft.GMessage) bool {
	wal, err := writeaheadlog.Open[walEntry](dir)
	if err != nil {
		panic(err)
	}
	es, err := wal.All()
	if err != nil {
		panic(err)
	}
	for _, e := range es {
		x := e.Message
		if x.Sender == m.Sender && x.Vote.Instance == m.Vote.Instance && x.Vote.Round == m.Vote.Round && x.Vote.Phase == m.Vote.Phase && string(x.Signature) == string(m.Signature) {
			return true
		}
	}
	return false
}

// VerifC12_BroadcastDurableAcrossRestarts: the real BroadcastMessage /
// rebroadcastMessage of a runner built by the real newRunner over a real WAL
// (publishing disabled: no topic, so each call ends right before it would hand
// the message to the network).  Every message that passed the filter is in the
// WAL when the call returns (recorded before it could be published); after a
// process restart at any point the re-armed filter refuses everything that
// conflicts with what passed before the restart.
func VerifC12_BroadcastDurableAcrossRestarts() {
	dir, err := os.MkdirTemp("", "verifc12")
	if err != nil {
		panic(err)
	}
	defer os.RemoveAll(dir)
	r, _ := verifRunner(dir)
	var published []verifPublished
	steps := 4 + sym.Tier()
	for st := 0; st < steps; st++ {
		switch sym.Choice("step", 2) {
		case 0:
			// small concrete universe (the fully symbolic field space, incl. instance
			// changes, is covered at filter level by VerifC12_FilterSequences):
			// 2 local senders x 2 signatures in one slot
			m := &gpbft.GMessage{
				Sender: gpbft.ActorID(1 + sym.Choice("b-sender", 2)),
				Vote: gpbft.Payload{
					Instance:         5,
					Phase:            gpbft.COMMIT_PHASE,
					SupplementalData: gpbft.SupplementalData{PowerTable: gpbft.MakeCid([]byte("verif-pt"))},
					Value:            gpbft.VerifChain(10, 1, 2),
				},
				Signature: []byte{byte(sym.Choice("b-sig", 2)), 7},
			}
			accepted := false
			for _, p := range published {
				if p.instance == m.Vote.Instance && p.sender == m.Sender && p.round == m.Vote.Round && p.phase == m.Vote.Phase &&
					p.sig[0] == m.Signature[0] && p.sig[1] == m.Signature[1] {
					accepted = true // an identical earlier broadcast
				}
			}
			first := sym.Choice("kind", 2) == 0
			before := verifWALHas(dir, m)
			if first {
				_ = r.BroadcastMessage(context.Background(), m)
				sym.Cover("broadcast")
			} else {
				// rebroadcasts only ever re-send messages this node broadcast before
				if !accepted {
					sym.Assume(false)
				}
				_ = r.rebroadcastMessage(m)
				sym.Cover("rebroadcast")
			}
			// did it pass the filter?  (the filter is deterministic: ask it again)
			passed := r.equivFilter.ProcessBroadcast(m)
			if passed {
				sym.Cover("passed-filter")
				sym.Assert(verifWALHas(dir, m), "a message that passes the filter is in the WAL before it can be published")
				for _, p := range published {
					sym.Assert(m.Vote.Instance >= p.instance, "never for an instance older than one already broadcast for")
					same := p.instance == m.Vote.Instance && p.sender == m.Sender && p.round == m.Vote.Round && p.phase == m.Vote.Phase
					sym.Assert(sym.Implies(same, p.sig[0] == m.Signature[0] && p.sig[1] == m.Signature[1]), "never two differently signed messages for one slot")
				}
				published = append(published, verifPublished{m.Vote.Instance, m.Sender, m.Vote.Round, m.Vote.Phase, [2]byte{m.Signature[0], m.Signature[1]}})
			} else {
				sym.Assert(verifWALHas(dir, m) == before, "a refused message is not recorded")
			}
		case 1:
			sym.Cover("restart")
			_ = r.wal.Close()
			r, _ = verifRunner(dir)
		}
	}
}
