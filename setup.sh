#!/bin/bash
# Builds the gosx engine from /verif/engine, offline.
set -e
cd "$(dirname "$0")"
export GOFLAGS=-mod=mod GOPROXY=off
unset GOSUMDB
mkdir -p bin evidence replays .work
(cd engine && go build -o ../bin/gosx ./cmd/gosx)
echo "gosx built"
