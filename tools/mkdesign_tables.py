#!/usr/bin/env python3
"""Regenerates the generated tables of DESIGN.md (between the GENERATED markers)
from harness/index.json, seeded/*/meta.json and known_findings.json."""
import json, os, glob, re
root = os.path.dirname(os.path.dirname(os.path.abspath(__file__)))
ix = json.load(open(f'{root}/harness/index.json'))
out = []
out.append('#### Harnesses and bounds per property (from harness/index.json)\n')
for pid in sorted(ix):
    p = ix[pid]
    out.append(f'**{pid} — {p["title"]}**\n')
    out.append('| harness (package) | bound |')
    out.append('|---|---|')
    for h in p['harnesses']:
        out.append(f'| `{h["func"]}` ({h["pkg"]}) | {h.get("bounds","")} |')
    if p.get('assumptions'):
        out.append('\nAssumptions: ' + '; '.join(p['assumptions']) + '\n')
    out.append('')
out.append('#### Seeded changes and which check catches them (from seeded/*/meta.json)\n')
out.append('| seed | property | what the change is (abridged) | outcome |')
out.append('|---|---|---|---|')
for d in sorted(glob.glob(f'{root}/seeded/*')):
    mp = d + '/meta.json'
    if not os.path.exists(mp):
        continue
    m = json.load(open(mp))
    s = (m.get('summary') or '').replace('\n', ' ').replace('|', '/')
    s = s[:260] + ('…' if len(s) > 260 else '')
    r = (m.get('check_result') or '').replace('\n', ' ').replace('|', '/')
    out.append(f'| {m.get("seed", os.path.basename(d))} | {m.get("property")} | {s} | {r} |')
out.append('')
k = json.load(open(f'{root}/known_findings.json'))
out.append('#### Genuine defects of /repo found by the checks (from known_findings.json)\n')
out.append('| property | id | state | commit | what failed |')
out.append('|---|---|---|---|---|')
for f in k.get('known', []):
    out.append(f'| {f["property"]} | {f["id"]} | known finding | – | {f["what"]} |')
for f in k.get('fixed', []):
    w = re.sub(r'^fixed: property=\S+ \S+ ', '', f['what']).replace('|', '/')
    out.append(f'| {f["property"]} | {f["id"]} | fixed | {f.get("commit","")} | {w} |')
text = '\n'.join(out) + '\n'
dp = f'{root}/DESIGN.md'
s = open(dp).read()
a, b = '<!-- GENERATED:BEGIN -->', '<!-- GENERATED:END -->'
if a in s and b in s:
    s = s[:s.index(a) + len(a)] + '\n' + text + s[s.index(b):]
    open(dp, 'w').write(s)
    print('DESIGN.md tables regenerated')
else:
    print(text)
