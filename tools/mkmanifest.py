#!/usr/bin/env python3
"""Regenerates /verif/MANIFEST.json from harness/index.json + tools/manifest_meta.json."""
import json, os
root = os.path.dirname(os.path.dirname(os.path.abspath(__file__)))
index = json.load(open(os.path.join(root, 'harness', 'index.json')))
meta = json.load(open(os.path.join(root, 'tools', 'manifest_meta.json')))
props = [json.loads(l) for l in open(os.path.join(root, 'properties.jsonl'))]
baseline = json.load(open('/root/.vp/BASELINE.json'))['cmd'] if os.path.exists('/root/.vp/BASELINE.json') else ''
checks, na = [], []
for p in props:
    pid = p['id']
    m = meta.get(pid, {})
    if pid in index and not m.get('not_applicable'):
        checks.append({
            'property_id': pid,
            'quick_cmd': f'./check {pid} quick',
            'thorough_cmd': f'./check {pid} thorough',
            'evidence_file': f'/verif/evidence/{pid}.json',
            'replay_cmd_template': './check replay {path}',
            'engine': 'gosx',
            'level_claimed': {'category': 'model_checking', 'text': m.get('text', ''), 'design_ref': m.get('design_ref', 'DESIGN.md §5 ' + pid)},
            'level_note': m.get('note', ''),
            'technique': m.get('technique', 'bounded symbolic execution of the real go/ssa + SMT (z3/cvc5), native replay of counterexamples'),
        })
    else:
        na.append({'property_id': pid, 'reason': m.get('not_applicable', 'check not built yet in this session (see DESIGN.md §10 implementation order)')})
manifest = {
    'version': 1,
    'setup_cmd': './setup.sh',
    'hooks': {
        'guard': 'verif',
        'enable': 'harness files are injected as overlays (go/packages Overlay for the engine, go test -overlay for native replay) and built with -tags verif; nothing under the guard is committed to /repo',
        'baseline_off_cmd': baseline,
        'source_commits': [],
        'add_only': True,
    },
    'engines': [{'name': 'gosx', 'path': '/verif/engine', 'serves_properties': [c['property_id'] for c in checks],
                 'kind_free_text': 'path-wise symbolic (concolic) execution of go/ssa built from /repo on every run; SMT (z3 -in incremental; one-shot portfolio z3/z3-new/cvc5 on unknown); native replay of every counterexample'}],
    'checks': checks,
    'not_applicable': na,
    'notes': meta.get('_notes', ''),
}
json.dump(manifest, open(os.path.join(root, 'MANIFEST.json'), 'w'), indent=1)
print('checks:', [c['property_id'] for c in checks], 'n/a:', [n['property_id'] for n in na])
