#!/bin/bash
# usage: tools/confirm_seed.sh <worktree> <pkgdir> <seed-id> <property> "<other test packages>"
# Confirms in the scratch worktree: builds, existing tests of the listed packages pass with the change,
# the demo fails with the change and passes without; then stores the seed under /verif/seeded/<seed-id>.
set -u
wt="$1"; pkg="$2"; id="$3"; prop="$4"; others="${5:-}"
export GOFLAGS=-mod=mod GOPROXY=off
cd "$wt" || exit 2
demo=$(ls $pkg/zz_demo_test.go 2>/dev/null)
[ -z "$demo" ] && { echo "no demo test"; exit 2; }
echo "== build with change"; go build ./... || exit 1
echo "== existing tests with change (demo excluded)"
mv "$demo" /tmp/zz_demo_hold.go
go test -count=1 ./$pkg/ $others 2>&1 | tail -6; t1=${PIPESTATUS[0]}
mv /tmp/zz_demo_hold.go "$demo"
echo "== demo with change (must FAIL)"
go test -count=1 -run 'Demo|ZZ' ./$pkg/ 2>&1 | tail -4; d1=${PIPESTATUS[0]}
git apply -R OUT/patch.diff || { echo "cannot reverse patch"; exit 2; }
echo "== demo without change (must PASS)"
go test -count=1 -run 'Demo|ZZ' ./$pkg/ 2>&1 | tail -3; d0=${PIPESTATUS[0]}
git apply OUT/patch.diff
echo "existing=$t1 demo_with=$d1 demo_without=$d0"
if [ $t1 -eq 0 ] && [ $d1 -ne 0 ] && [ $d0 -eq 0 ]; then
  mkdir -p /verif/seeded/$id
  cp OUT/patch.diff /verif/seeded/$id/patch.diff
  cp "$demo" /verif/seeded/$id/zz_demo_test.go
  cp OUT/meta.json /verif/seeded/$id/meta.agent.json
  echo "CONFIRMED $id"
else
  echo "NOT CONFIRMED $id"
fi
