#!/bin/bash
# usage: tools/try_seed.sh <patch.diff> <property-id> [tier]
# applies a seeded change to /repo, runs the property's check, and undoes the change.
set -u
patch="$1"; prop="$2"; tier="${3:-quick}"
cd /repo || exit 2
if [ -n "$(git status --porcelain)" ]; then echo "/repo is not clean"; exit 2; fi
git apply "$patch" || { echo "patch does not apply"; exit 2; }
cd /verif
timeout 3600 ./check "$prop" "$tier" > .work/seed_run.txt 2>&1
code=$?
git -C /repo checkout -- .
git -C /repo clean -fdq
grep -E "VIOLATION|confirmed natively|PROBLEM|held on|INCONCLUSIVE" .work/seed_run.txt | cut -c1-300 | head -12
echo "exit=$code"
