#!/bin/bash
# usage: tools/try_seed_wt.sh <patch.diff> <property-id> [tier] [only-harness]
# Like try_seed.sh, but leaves /repo alone: applies the seeded change to a scratch
# worktree of /repo's HEAD and runs the property's check against that worktree with
# a scratch verif directory (harnesses and known findings linked from /verif), so
# that several trials and ordinary checks can run side by side.
set -u
patch="$(readlink -f "$1")"; prop="$2"; tier="${3:-quick}"; only="${4:-}"
export GOFLAGS=-mod=mod GOPROXY=off; unset GOSUMDB
tag="$$"
wt="/tmp/seedrun-$tag"; vd="/tmp/seedverif-$tag"
git -C /repo worktree add --detach "$wt" HEAD >/dev/null 2>&1 || { echo "cannot create worktree"; exit 2; }
trap 'git -C /repo worktree remove --force "$wt" >/dev/null 2>&1; rm -rf "$vd"' EXIT
( cd "$wt" && git apply "$patch" ) || { echo "patch does not apply"; exit 2; }
mkdir -p "$vd/evidence" "$vd/replays" "$vd/.work"
cp -r /verif/harness "$vd/harness"; cp /verif/known_findings.json "$vd/known_findings.json"
args=(-repo "$wt" -verif "$vd" -property "$prop" -tier "$tier")
[ -n "$only" ] && args+=(-only "$only")
timeout 3600 /verif/bin/gosx check "${args[@]}" > "$vd/run.txt" 2>&1
code=$?
grep -E "VIOLATION|confirmed natively|PROBLEM|held on|INCONCLUSIVE" "$vd/run.txt" | cut -c1-400 | sed "s#$vd#<scratch>#g" | head -12
echo "exit=$code"
